// Package bubble runs corebgp inside a testing/synctest bubble over an
// in-memory network and records what it does.
package bubble

import (
	"os"
	"errors"
	"io"
	"net"
	"net/netip"
	"sync"
	"syscall"
	"time"
)

// fakeAddr implements net.Addr with an arbitrary "host:port" string.
type fakeAddr string

func (a fakeAddr) Network() string { return "tcp" }
func (a fakeAddr) String() string  { return string(a) }

// mkAddr turns "host:port" into a *net.TCPAddr, as a real socket would report
// (an IPv4-mapped IPv6 address keeps its 16-byte form, like a connection
// accepted on a dual-stack listener); anything unparsable stays a plain string.
func mkAddr(hostport string) net.Addr {
	if ap, err := netip.ParseAddrPort(hostport); err == nil {
		return net.TCPAddrFromAddrPort(ap)
	}
	return fakeAddr(hostport)
}

// fakeConn is the local (corebgp-side) end of an in-memory connection. The
// remote side is the script: it appends segments to the receive queue, and
// every Write/Close corebgp performs is logged by the goroutine performing it.
//
// The receive queue is unbounded (kernel-buffer-like); a Read never returns
// bytes from more than one segment, which lets scripts choose the TCP
// segmentation corebgp observes.
type fakeConn struct {
	name   string
	local  net.Addr
	remote net.Addr
	tr     *tracer

	mu       sync.Mutex
	wake     chan struct{} // closed and replaced whenever state changes
	segs     [][]byte      // unread segments
	reof     bool          // remote closed (FIN) after segs
	rreset   bool          // remote reset: reads and writes fail at once
	closed   bool          // corebgp called Close
	held     bool          // handed to corebgp (accepted or returned by the dialer)
	nClose   int
	nWrAfter int // writes attempted after local Close
	consumed int // bytes corebgp has read
	stalled  bool      // the remote has stopped reading and the send buffer is full: Write blocks
	wdl, rdl time.Time // deadlines (zero: none), with net.Conn semantics
}

func newFakeConn(name string, local, remote string, tr *tracer) *fakeConn {
	return &fakeConn{name: name, local: mkAddr(local), remote: mkAddr(remote),
		tr: tr, wake: make(chan struct{})}
}

func (c *fakeConn) signal() {
	close(c.wake)
	c.wake = make(chan struct{})
}

// remoteSend appends segments (the script's TCP writes).
func (c *fakeConn) remoteSend(b []byte, chunks []int) {
	c.mu.Lock()
	defer c.mu.Unlock()
	if c.reof || c.rreset {
		return
	}
	rest := b
	for _, n := range chunks {
		if n <= 0 || len(rest) == 0 {
			continue
		}
		if n > len(rest) {
			n = len(rest)
		}
		seg := make([]byte, n)
		copy(seg, rest[:n])
		c.segs = append(c.segs, seg)
		rest = rest[n:]
	}
	if len(rest) > 0 {
		seg := make([]byte, len(rest))
		copy(seg, rest)
		c.segs = append(c.segs, seg)
	}
	c.signal()
}

func (c *fakeConn) remoteClose() {
	c.mu.Lock()
	defer c.mu.Unlock()
	c.reof = true
	c.signal()
}

func (c *fakeConn) remoteReset() {
	c.mu.Lock()
	defer c.mu.Unlock()
	c.rreset = true
	c.segs = nil
	c.signal()
}

// stall makes Write block (remote window closed, send buffer full) until
// unstalled, closed locally, reset, or the write deadline passes.
func (c *fakeConn) stall(on bool) {
	c.mu.Lock()
	defer c.mu.Unlock()
	c.stalled = on
	c.signal()
}

func (c *fakeConn) setDeadline(which *time.Time, t time.Time) {
	c.mu.Lock()
	*which = t
	c.signal()
	c.mu.Unlock()
	if !t.IsZero() {
		if d := time.Until(t); d > 0 {
			time.AfterFunc(d, func() {
				c.mu.Lock()
				c.signal()
				c.mu.Unlock()
			})
		}
	}
}

func expired(dl time.Time) bool { return !dl.IsZero() && !time.Now().Before(dl) }

func (c *fakeConn) pending() int {
	c.mu.Lock()
	defer c.mu.Unlock()
	n := 0
	for _, s := range c.segs {
		n += len(s)
	}
	return n
}

func (c *fakeConn) Read(p []byte) (int, error) {
	for {
		c.mu.Lock()
		switch {
		case c.closed:
			c.mu.Unlock()
			return 0, net.ErrClosed
		case c.rreset:
			c.mu.Unlock()
			return 0, syscall.ECONNRESET
		case expired(c.rdl):
			c.mu.Unlock()
			return 0, os.ErrDeadlineExceeded
		case len(c.segs) > 0:
			if len(p) == 0 {
				c.mu.Unlock()
				return 0, nil
			}
			n := copy(p, c.segs[0])
			if n == len(c.segs[0]) {
				c.segs = c.segs[1:]
			} else {
				c.segs[0] = c.segs[0][n:]
			}
			c.consumed += n
			c.mu.Unlock()
			return n, nil
		case c.reof:
			c.mu.Unlock()
			return 0, io.EOF
		}
		w := c.wake
		c.mu.Unlock()
		<-w // durably blocking inside the bubble
	}
}

// Write and Close log their event while holding c.mu: the log order of the
// writes and the close of one connection is then the order in which they took
// effect (a write that was admitted before a concurrent Close is logged before it).
func (c *fakeConn) Write(p []byte) (int, error) {
	b := make([]byte, len(p))
	copy(b, p)
	for {
		c.mu.Lock()
		switch {
		case c.closed:
			c.nWrAfter++
			c.tr.emit(event{E: "wfail", C: c.name, B: b})
			c.mu.Unlock()
			return 0, net.ErrClosed
		case c.rreset:
			c.tr.emit(event{E: "wfail", C: c.name, B: b})
			c.mu.Unlock()
			return 0, syscall.EPIPE
		case expired(c.wdl):
			c.tr.emit(event{E: "wfail", C: c.name, B: b, R: "deadline"})
			c.mu.Unlock()
			return 0, os.ErrDeadlineExceeded
		case c.stalled:
			w := c.wake
			c.mu.Unlock()
			<-w // durably blocking inside the bubble
			continue
		}
		c.tr.emit(event{E: "w", C: c.name, B: b})
		c.mu.Unlock()
		return len(p), nil
	}
}

func (c *fakeConn) Close() error {
	c.mu.Lock()
	defer c.mu.Unlock()
	c.nClose++
	first := !c.closed
	c.closed = true
	c.signal()
	if first {
		c.tr.emit(event{E: "lclose", C: c.name})
		return nil
	}
	return net.ErrClosed
}

func (c *fakeConn) LocalAddr() net.Addr                { return c.local }
func (c *fakeConn) RemoteAddr() net.Addr               { return c.remote }
func (c *fakeConn) SetDeadline(t time.Time) error {
	c.setDeadline(&c.rdl, t)
	c.setDeadline(&c.wdl, t)
	return nil
}
func (c *fakeConn) SetReadDeadline(t time.Time) error  { c.setDeadline(&c.rdl, t); return nil }
func (c *fakeConn) SetWriteDeadline(t time.Time) error { c.setDeadline(&c.wdl, t); return nil }

// fakeListener hands scripted inbound connections to Server.Serve. Offered
// connections queue up (like a kernel accept backlog), so the script never
// blocks on a busy accept loop.
type fakeListener struct {
	addr    fakeAddr
	tr      *tracer
	mu      sync.Mutex
	wake    chan struct{}
	backlog []net.Conn
	fail    error
	closed  bool
	held    chan struct{} // non-nil: Close blocks until released
}

func (l *fakeListener) gate() {
	l.mu.Lock()
	defer l.mu.Unlock()
	if l.held == nil {
		l.held = make(chan struct{})
	}
}

func (l *fakeListener) release() {
	l.mu.Lock()
	defer l.mu.Unlock()
	if l.held != nil {
		close(l.held)
		l.held = nil
	}
}

func newFakeListener(tr *tracer) *fakeListener {
	return &fakeListener{tr: tr, wake: make(chan struct{})}
}

func (l *fakeListener) signal() {
	close(l.wake)
	l.wake = make(chan struct{})
}

func (l *fakeListener) offer(c net.Conn) {
	l.mu.Lock()
	defer l.mu.Unlock()
	l.backlog = append(l.backlog, c)
	l.signal()
}

func (l *fakeListener) failWith(err error) {
	l.mu.Lock()
	defer l.mu.Unlock()
	l.fail = err
	l.signal()
}

func (l *fakeListener) Accept() (net.Conn, error) {
	for {
		l.mu.Lock()
		switch {
		case l.closed:
			l.mu.Unlock()
			return nil, net.ErrClosed
		case l.fail != nil:
			err := l.fail
			l.fail = nil
			l.mu.Unlock()
			return nil, err
		case len(l.backlog) > 0:
			c := l.backlog[0]
			l.backlog = l.backlog[1:]
			l.mu.Unlock()
			// logged by the accept goroutine: from here on corebgp holds c
			if fc, ok := c.(*fakeConn); ok {
				fc.mu.Lock()
				fc.held = true
				fc.mu.Unlock()
				l.tr.emit(event{E: "acc", C: fc.name})
			}
			return c, nil
		}
		w := l.wake
		l.mu.Unlock()
		<-w
	}
}

func (l *fakeListener) Close() error {
	l.mu.Lock()
	h := l.held
	l.mu.Unlock()
	if h != nil {
		<-h // a listener whose Close takes a while
	}
	l.mu.Lock()
	defer l.mu.Unlock()
	if !l.closed {
		l.closed = true
		l.signal()
	}
	return nil
}

func (l *fakeListener) Addr() net.Addr {
	if l.addr == "" {
		return mkAddr("0.0.0.0:179")
	}
	return mkAddr(string(l.addr))
}

var errScriptedListener = errors.New("scripted listener failure")
