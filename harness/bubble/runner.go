package bubble

import (
	"bufio"
	"context"
	"encoding/json"
	"errors"
	"fmt"
	"net"
	"net/netip"
	"os"
	"regexp"
	"runtime"
	"strings"
	"sync"
	"sync/atomic"
	"syscall"
	"testing"
	"testing/synctest"
	"time"

	"github.com/jwhited/corebgp"
)

// ---------------------------------------------------------------- script

type notifJ struct {
	Code uint8 `json:"code"`
	Sub  uint8 `json:"sub"`
	Data []int `json:"data"`
}

type capJ struct {
	Code uint8 `json:"code"`
	Val  []int `json:"val"`
}

type peerJ struct {
	Name        string  `json:"name"`
	Remote      string  `json:"remote"`
	LocalAS     uint32  `json:"localAS"`
	RemoteAS    uint32  `json:"remoteAS"`
	Hold        int     `json:"hold"`      // seconds
	IdleHold    int64   `json:"idleHold"`  // time units (1/3 ms)
	ConnRetry   int64   `json:"connRetry"` // time units
	Passive     bool    `json:"passive"`
	LocalAddr   string  `json:"localAddr"` // "" = none
	Port        int     `json:"port"`
	Caps        []capJ  `json:"caps"`
	OpenReply   *notifJ `json:"openReply"`
	NoHandler   bool    `json:"noHandler"`
	// HandlerReplies[k] (k = "1","2",… position of the UPDATE within the
	// session) is returned by the update handler instead of nil.
	HandlerReplies map[string]notifJ `json:"handlerReplies"`
	// EstWrites are WriteUpdate bodies issued from inside OnEstablished,
	// HandlerWrites[k] from inside the k-th handler call.
	// Gates: "Name#k" = the k-th invocation of callback Name blocks (after
	// being logged) until a "release" step with call=Name, w=k.
	Gates         []string           `json:"gates"`
	EstWrites     [][]int            `json:"estWrites"`
	HandlerWrites map[string][][]int `json:"handlerWrites"`
}

type stepJ struct {
	Op     string `json:"op"`
	Peer   string `json:"peer"`
	Conn   string `json:"conn"`
	Src    string `json:"src"`
	Dst    string `json:"dst"`
	B      []int  `json:"b"`
	Chunks []int  `json:"chunks"`
	D      int64  `json:"d"` // time units
	W      int    `json:"w"` // writer (session) index within the peer, 1-based
	Call   string `json:"call"`
	Addr   string `json:"addr"`
	// Multi: sub-steps issued back to back without waiting for quiescence
	// in between (racy stimuli).
	Multi []stepJ `json:"multi"`
	// Lis: index of the listener a "connect" arrives on.
	Lis int `json:"lis"`
}

type scriptJ struct {
	ID       string  `json:"id"`
	RouterID string  `json:"routerID"`
	Peers    []peerJ `json:"peers"`
	Steps    []stepJ `json:"steps"`
	// Listeners: bound addresses of the listeners given to Serve (default: one wildcard listener).
	Listeners []string `json:"listeners"`
	Tags      []string `json:"tags"`
}

func toBytes(a []int) []byte {
	b := make([]byte, len(a))
	for i, v := range a {
		b[i] = byte(v)
	}
	return b
}

func toInts(b []byte) []int {
	a := make([]int, len(b))
	for i, v := range b {
		a[i] = int(v)
	}
	return a
}

// ---------------------------------------------------------------- trace

// event is one record of the global log. Records are appended by the
// goroutine that performed the step, under the tracer mutex, so the log order
// is a linearization consistent with every goroutine's program order.
type event struct {
	Seq  int    `json:"seq"`
	T    int64  `json:"t"` // virtual time, units of 1/3 ms
	E    string `json:"e"` // w wfail lclose cb dial ret
	P    string `json:"p"` // peer name
	C    string `json:"c"` // connection name
	N    string `json:"n"` // callback / call name
	R    string `json:"r"` // result class
	K    int64  `json:"k"` // dial number, writer number, router id, …
	B    []byte `json:"-"`
	BI   []int  `json:"b"`
	Caps []capJ `json:"caps"`
	G    int64  `json:"g"` // goroutine id (diagnostics only)
}

type tracer struct {
	mu    sync.Mutex
	start time.Time
	seq   int
	evs   []event
}

const unitsPerMs = 3

func (t *tracer) nowUnits() int64 {
	ns := time.Since(t.start).Nanoseconds()
	// units of 1/3 ms, rounded to nearest
	return (ns*unitsPerMs + 500000) / 1000000
}

func goid() int64 {
	var buf [64]byte
	n := runtime.Stack(buf[:], false)
	var id int64
	fmt.Sscanf(string(buf[:n]), "goroutine %d ", &id)
	return id
}

func (t *tracer) emit(e event) {
	g := goid()
	t.mu.Lock()
	defer t.mu.Unlock()
	t.seq++
	e.Seq = t.seq
	e.T = t.nowUnits()
	e.G = g
	e.BI = toInts(e.B)
	if e.BI == nil {
		e.BI = []int{}
	}
	if e.Caps == nil {
		e.Caps = []capJ{}
	}
	t.evs = append(t.evs, e)
}

func (t *tracer) take() []event {
	t.mu.Lock()
	defer t.mu.Unlock()
	evs := t.evs
	t.evs = nil
	if evs == nil {
		evs = []event{}
	}
	return evs
}

type obsLine struct {
	K    string         `json:"k"` // "obs"
	I    int            `json:"i"` // step index (0-based); -1 = final
	T    int64          `json:"t"`
	Ev   []event        `json:"ev"`
	Pend map[string]int `json:"pend"` // unread bytes per open connection
	Void []string       `json:"void"` // conns offered to a dial that its context had already cancelled
}

// ---------------------------------------------------------------- plugin

type session struct {
	w corebgp.UpdateMessageWriter
}

type recPlugin struct {
	r    *run
	cfg  peerJ
	mu   sync.Mutex
	sess []*session
	nUpd int // updates seen in the current session
	argsChanged bool // a callback's arguments changed while it was running
	// retained slices handed to the handler, with a copy made at delivery
	kept  [][]byte
	kept0 [][]byte
	// overlap detection for session callbacks
	inflight int
	overlap  bool
	gates    map[string]chan struct{}
	ncb      map[string]int
}

// hold blocks the calling callback while the gate of this invocation is closed.
func (p *recPlugin) hold(name string) {
	p.mu.Lock()
	p.ncb[name]++
	k := p.ncb[name]
	ch := p.gates[fmt.Sprintf("%s#%d", name, k)]
	p.mu.Unlock()
	if ch != nil {
		<-ch
		// the held callback returns now
		p.r.tr.emit(event{E: "cbx", P: p.cfg.Name, N: name, K: int64(k)})
	}
}

// holdQuiet is hold without the exit event (peer-manager log points).
func (p *recPlugin) holdQuiet(name string) {
	p.mu.Lock()
	p.ncb[name]++
	ch := p.gates[fmt.Sprintf("%s#%d", name, p.ncb[name])]
	p.mu.Unlock()
	if ch != nil {
		<-ch
	}
}

func (p *recPlugin) release(name string) {
	p.mu.Lock()
	defer p.mu.Unlock()
	if ch := p.gates[name]; ch != nil {
		close(ch)
		delete(p.gates, name)
	}
}

func (p *recPlugin) enter() {
	p.mu.Lock()
	p.inflight++
	if p.inflight > 1 {
		p.overlap = true
	}
	p.mu.Unlock()
}

func (p *recPlugin) exit() {
	p.mu.Lock()
	p.inflight--
	p.mu.Unlock()
}

func (p *recPlugin) GetCapabilities(pc corebgp.PeerConfig) []corebgp.Capability {
	p.r.tr.emit(event{E: "cb", P: p.cfg.Name, N: "GetCapabilities"})
	p.hold("GetCapabilities")
	caps := make([]corebgp.Capability, 0, len(p.cfg.Caps))
	for _, c := range p.cfg.Caps {
		caps = append(caps, corebgp.Capability{Code: c.Code, Value: toBytes(c.Val)})
	}
	return caps
}

func (p *recPlugin) OnOpenMessage(pc corebgp.PeerConfig, rid netip.Addr, caps []corebgp.Capability) *corebgp.Notification {
	cj := make([]capJ, 0, len(caps))
	for _, c := range caps {
		cj = append(cj, capJ{Code: c.Code, Val: toInts(c.Value)})
	}
	var k int64 = -1
	if rid.Is4() {
		a := rid.As4()
		k = int64(a[0])<<24 | int64(a[1])<<16 | int64(a[2])<<8 | int64(a[3])
	}
	p.r.tr.emit(event{E: "cb", P: p.cfg.Name, N: "OnOpenMessage", K: k, Caps: cj})
	p.hold("OnOpenMessage")
	// what the callback was given must still be what it sees when it returns
	// (however long it took and whatever arrived meanwhile)
	for i, c := range caps {
		if i >= len(cj) || c.Code != cj[i].Code || fmt.Sprint(toInts(c.Value)) != fmt.Sprint(cj[i].Val) {
			p.mu.Lock()
			p.argsChanged = true
			p.mu.Unlock()
		}
	}
	if p.cfg.OpenReply != nil {
		return &corebgp.Notification{Code: p.cfg.OpenReply.Code, Subcode: p.cfg.OpenReply.Sub,
			Data: toBytes(p.cfg.OpenReply.Data)}
	}
	return nil
}

func (p *recPlugin) OnEstablished(pc corebgp.PeerConfig, w corebgp.UpdateMessageWriter) corebgp.UpdateMessageHandler {
	p.enter()
	defer p.exit()
	p.mu.Lock()
	p.sess = append(p.sess, &session{w: w})
	k := len(p.sess)
	p.nUpd = 0
	p.mu.Unlock()
	p.r.tr.emit(event{E: "cb", P: p.cfg.Name, N: "OnEstablished", K: int64(k)})
	p.hold("OnEstablished")
	for _, b := range p.cfg.EstWrites {
		err := w.WriteUpdate(toBytes(b))
		p.r.tr.emit(event{E: "ret", P: p.cfg.Name, N: "writeCb", K: int64(k), R: errClass(err)})
	}
	if p.cfg.NoHandler {
		return nil
	}
	return func(pc corebgp.PeerConfig, u []byte) *corebgp.Notification {
		p.enter()
		defer p.exit()
		p.mu.Lock()
		p.nUpd++
		n := p.nUpd
		cp := make([]byte, len(u))
		copy(cp, u)
		p.kept = append(p.kept, u)
		p.kept0 = append(p.kept0, cp)
		p.mu.Unlock()
		p.r.tr.emit(event{E: "cb", P: p.cfg.Name, N: "Update", K: int64(k), B: cp})
		p.hold("Update")
		key := fmt.Sprint(n)
		for _, b := range p.cfg.HandlerWrites[key] {
			err := w.WriteUpdate(toBytes(b))
			p.r.tr.emit(event{E: "ret", P: p.cfg.Name, N: "writeCb", K: int64(k), R: errClass(err)})
		}
		if nj, ok := p.cfg.HandlerReplies[key]; ok {
			return &corebgp.Notification{Code: nj.Code, Subcode: nj.Sub, Data: toBytes(nj.Data)}
		}
		return nil
	}
}

func (p *recPlugin) OnClose(pc corebgp.PeerConfig) {
	p.enter()
	defer p.exit()
	p.mu.Lock()
	k := len(p.sess)
	p.mu.Unlock()
	p.r.tr.emit(event{E: "cb", P: p.cfg.Name, N: "OnClose", K: int64(k)})
	p.hold("OnClose")
}

// retainedIntact reports whether every slice handed to the handler still has
// the content it was delivered with.
func (p *recPlugin) retainedIntact() bool {
	p.mu.Lock()
	defer p.mu.Unlock()
	if p.argsChanged {
		return false
	}
	for i := range p.kept {
		if string(p.kept[i]) != string(p.kept0[i]) {
			return false
		}
	}
	return true
}

func errClass(err error) string {
	switch {
	case err == nil:
		return "nil"
	case errors.Is(err, corebgp.ErrServerClosed):
		return "ErrServerClosed"
	case errors.Is(err, corebgp.ErrPeerNotExist):
		return "ErrPeerNotExist"
	case errors.Is(err, corebgp.ErrPeerAlreadyExists):
		return "ErrPeerAlreadyExists"
	case strings.HasPrefix(err.Error(), "listener error"):
		return "listener"
	default:
		return "err"
	}
}

// ---------------------------------------------------------------- logger gates

// corebgp calls the application's Logger from the peer-manager goroutine (state
// transitions, errors).  A Logger that blocks is a gate inside the peer manager.
var curRun atomic.Pointer[run]

var (
	reTransition = regexp.MustCompile(`^\[(.+?)\] FSM-(out|in) transition (\w+) => (\w+)$`)
	reError      = regexp.MustCompile(`^\[(.+?)\] FSM-(out|in) \w+ error:`)
)

func logDispatch(v ...interface{}) {
	r := curRun.Load()
	if r == nil || len(v) == 0 {
		return
	}
	msg, _ := v[0].(string)
	var addr, name string
	if m := reTransition.FindStringSubmatch(msg); m != nil {
		addr = m[1]
		if m[4] == "disabled" {
			name = "dis-" + m[2]
		} else {
			name = "apv-" + m[2]
		}
	} else if m := reError.FindStringSubmatch(msg); m != nil {
		addr, name = m[1], "err-"+m[2]
	} else {
		return
	}
	if pl := r.plugins[r.byAddr[addr]]; pl != nil {
		pl.holdQuiet(name)
	}
}

// ---------------------------------------------------------------- dials

type dialDecision struct {
	conn net.Conn
	err  error
}

type pendingDial struct {
	k      int
	ch     chan dialDecision
	done   bool
}

// ---------------------------------------------------------------- run

type run struct {
	sc      scriptJ
	tr      *tracer
	srv     *corebgp.Server
	lis     *fakeListener   // listener 0
	liss    []*fakeListener // all listeners
	plugins map[string]*recPlugin // by peer name
	byAddr  map[string]string     // remote addr -> peer name
	conns   map[string]*fakeConn

	clock  int64 // virtual time the script has advanced to, in units
	mu     sync.Mutex
	dials  map[string][]*pendingDial // by peer name
	nDials map[string]int
	void   []string
}

func (r *run) dialHook(ctx context.Context, local, remote netip.Addr, port int) (net.Conn, error) {
	name := r.byAddr[remote.String()]
	r.mu.Lock()
	r.nDials[name]++
	pd := &pendingDial{k: r.nDials[name], ch: make(chan dialDecision, 1)}
	r.dials[name] = append(r.dials[name], pd)
	r.mu.Unlock()
	la := ""
	if local.IsValid() {
		la = local.String()
	}
	r.tr.emit(event{E: "dial", P: name, K: int64(pd.k), R: la, C: fmt.Sprint(port)})
	defer func() {
		r.mu.Lock()
		pd.done = true
		r.mu.Unlock()
	}()
	select {
	case <-ctx.Done():
		// like net.Dialer: a connection that completes for a cancelled dial is
		// closed by the dialer and never reaches the caller
		r.mu.Lock()
		pd.done = true
		select {
		case d := <-pd.ch:
			r.voidConn(d.conn)
		default:
		}
		r.mu.Unlock()
		return nil, ctx.Err()
	case d := <-pd.ch:
		return d.conn, d.err
	}
}

// voidConn (r.mu held) records that the dialer itself disposed of c.
func (r *run) voidConn(c net.Conn) {
	fc, ok := c.(*fakeConn)
	if !ok || fc == nil {
		return
	}
	fc.mu.Lock()
	fc.held = false
	fc.mu.Unlock()
	r.void = append(r.void, fc.name)
}

func (r *run) voids() []string {
	r.mu.Lock()
	defer r.mu.Unlock()
	return append([]string{}, r.void...)
}

// livePending returns the oldest dial of the peer that has not finished.
func (r *run) livePending(peer string) *pendingDial {
	r.mu.Lock()
	defer r.mu.Unlock()
	for _, pd := range r.dials[peer] {
		if !pd.done {
			return pd
		}
	}
	return nil
}

func (r *run) peerOpts(p peerJ) (corebgp.PeerConfig, []corebgp.PeerOption, error) {
	ra, _ := netip.ParseAddr(p.Remote)
	pc := corebgp.PeerConfig{RemoteAddress: ra, LocalAS: p.LocalAS, RemoteAS: p.RemoteAS}
	opts := []corebgp.PeerOption{
		corebgp.WithHoldTime(uint16(p.Hold)),
		corebgp.WithIdleHoldTime(time.Duration(p.IdleHold) * time.Millisecond / unitsPerMs),
		corebgp.WithConnectRetryTime(time.Duration(p.ConnRetry) * time.Millisecond / unitsPerMs),
	}
	if p.Port != 0 {
		opts = append(opts, corebgp.WithPort(p.Port))
	}
	if p.Passive {
		opts = append(opts, corebgp.WithPassive())
	}
	if p.LocalAddr != "" {
		la, err := netip.ParseAddr(p.LocalAddr)
		if err != nil {
			return pc, nil, err
		}
		opts = append(opts, corebgp.WithLocalAddress(la))
	}
	return pc, opts, nil
}

func (r *run) peerByName(name string) (peerJ, bool) {
	for _, p := range r.sc.Peers {
		if p.Name == name {
			return p, true
		}
	}
	return peerJ{}, false
}

func (r *run) doStep(st stepJ) error {
	switch st.Op {
	case "addPeer":
		p, ok := r.peerByName(st.Peer)
		if !ok {
			return fmt.Errorf("unknown peer %q", st.Peer)
		}
		pc, opts, err := r.peerOpts(p)
		if err != nil {
			return err
		}
		pl := r.plugins[p.Name]
		go func() {
			err := r.srv.AddPeer(pc, pl, opts...)
			r.tr.emit(event{E: "ret", P: p.Name, N: "addPeer", R: errClass(err)})
		}()
	case "deletePeer":
		p, ok := r.peerByName(st.Peer)
		if !ok {
			return fmt.Errorf("unknown peer %q", st.Peer)
		}
		ra, _ := netip.ParseAddr(p.Remote)
		go func() {
			err := r.srv.DeletePeer(ra)
			r.tr.emit(event{E: "ret", P: p.Name, N: "deletePeer", R: errClass(err)})
		}()
	case "getPeer":
		p, _ := r.peerByName(st.Peer)
		ra, _ := netip.ParseAddr(p.Remote)
		go func() {
			_, err := r.srv.GetPeer(ra)
			r.tr.emit(event{E: "ret", P: p.Name, N: "getPeer", R: errClass(err)})
		}()
	case "listPeers":
		go func() {
			cfgs := r.srv.ListPeers()
			names := []string{}
			for _, c := range cfgs {
				names = append(names, r.byAddr[c.RemoteAddress.String()])
			}
			// sorted, comma separated
			for i := range names {
				for j := i + 1; j < len(names); j++ {
					if names[j] < names[i] {
						names[i], names[j] = names[j], names[i]
					}
				}
			}
			r.tr.emit(event{E: "ret", N: "listPeers", R: strings.Join(names, ",")})
		}()
	case "serve":
		go func() {
			ls := []net.Listener{}
			for _, l := range r.liss {
				ls = append(ls, l)
			}
			err := r.srv.Serve(ls)
			r.tr.emit(event{E: "ret", N: "serve", R: errClass(err)})
		}()
	case "close":
		go func() {
			r.srv.Close()
			r.tr.emit(event{E: "ret", N: "close", R: "nil"})
		}()
	case "lisFail":
		if st.Lis < 0 || st.Lis >= len(r.liss) {
			return fmt.Errorf("no listener %d", st.Lis)
		}
		r.liss[st.Lis].failWith(errScriptedListener)
	case "connect":
		c := newFakeConn(st.Conn, st.Dst, st.Src, r.tr)
		r.conns[st.Conn] = c
		if st.Lis < 0 || st.Lis >= len(r.liss) {
			return fmt.Errorf("no listener %d", st.Lis)
		}
		r.liss[st.Lis].offer(c)
	case "dialAccept":
		p, _ := r.peerByName(st.Peer)
		local := st.Src
		if local == "" {
			local = "10.255.0.1:40000"
		}
		c := newFakeConn(st.Conn, local, net.JoinHostPort(p.Remote, "179"), r.tr)
		r.conns[st.Conn] = c
		c.held = true
		// check and hand-over are one atomic step with respect to the hook's
		// cancellation path, so the connection is either consumed or voided
		r.mu.Lock()
		var pd *pendingDial
		for _, x := range r.dials[st.Peer] {
			if !x.done {
				pd = x
				break
			}
		}
		if pd == nil {
			// the dial this step raced with is already over (cancelled): the
			// connection completes for nobody, as it would in the kernel
			n := len(r.dials[st.Peer])
			r.mu.Unlock()
			if n == 0 {
				return fmt.Errorf("no pending dial for %q", st.Peer)
			}
			r.mu.Lock()
			r.voidConn(c)
			r.mu.Unlock()
			return nil
		}
		select {
		case pd.ch <- dialDecision{conn: c}:
		default:
			r.mu.Unlock()
			return fmt.Errorf("dial of %q already decided", st.Peer)
		}
		r.mu.Unlock()
	case "dialRefuse":
		pd := r.livePending(st.Peer)
		if pd == nil {
			return fmt.Errorf("no pending dial for %q", st.Peer)
		}
		pd.ch <- dialDecision{err: &net.OpError{Op: "dial", Net: "tcp", Err: syscall.ECONNREFUSED}}
	case "send":
		c := r.conns[st.Conn]
		if c == nil {
			return fmt.Errorf("unknown conn %q", st.Conn)
		}
		c.remoteSend(toBytes(st.B), st.Chunks)
	case "stall", "unstall":
		c := r.conns[st.Conn]
		if c == nil {
			return fmt.Errorf("unknown conn %q", st.Conn)
		}
		c.stall(st.Op == "stall")
	case "rclose":
		c := r.conns[st.Conn]
		if c == nil {
			return fmt.Errorf("unknown conn %q", st.Conn)
		}
		c.remoteClose()
	case "rreset":
		c := r.conns[st.Conn]
		if c == nil {
			return fmt.Errorf("unknown conn %q", st.Conn)
		}
		c.remoteReset()
	case "advance":
		// advance to an absolute target so that rounding never accumulates:
		// the target is the first nanosecond at or after the unit boundary
		r.clock += st.D
		target := time.Duration((r.clock*1000000 + unitsPerMs - 1) / unitsPerMs)
		if d := target - time.Since(r.tr.start); d > 0 {
			time.Sleep(d)
		}
	case "write":
		pl := r.plugins[st.Peer]
		if pl == nil {
			return fmt.Errorf("unknown peer %q", st.Peer)
		}
		pl.mu.Lock()
		var s *session
		if st.W >= 1 && st.W <= len(pl.sess) {
			s = pl.sess[st.W-1]
		}
		pl.mu.Unlock()
		if s == nil {
			return fmt.Errorf("no writer %d for %q", st.W, st.Peer)
		}
		b := toBytes(st.B)
		go func() {
			err := s.w.WriteUpdate(b)
			r.tr.emit(event{E: "ret", P: st.Peer, N: "write", K: int64(st.W), R: errClass(err)})
		}()
	case "release":
		pl := r.plugins[st.Peer]
		if pl == nil {
			return fmt.Errorf("unknown peer %q", st.Peer)
		}
		pl.release(fmt.Sprintf("%s#%d", st.Call, st.W))
	case "yield":
		// let other goroutines run for a while without requiring quiescence
		// (used inside multi steps, where a goroutine may be waiting for a
		// mutex whose holder is held at a gate)
		for i := 0; i < 20000; i++ {
			runtime.Gosched()
		}
	case "lisGate":
		r.lis.gate()
	case "lisRelease":
		r.lis.release()
	case "nop":
	case "multi":
		for _, sub := range st.Multi {
			if err := r.doStep(sub); err != nil {
				return err
			}
		}
	default:
		return fmt.Errorf("unknown op %q", st.Op)
	}
	return nil
}

func (r *run) pend() map[string]int {
	m := map[string]int{}
	for n, c := range r.conns {
		m[n] = c.pending()
	}
	return m
}

// corebgpGoroutines returns the top corebgp frame of every goroutine that is
// still executing corebgp code.
func corebgpGoroutines() []string {
	buf := make([]byte, 1<<20)
	n := runtime.Stack(buf, true)
	var out []string
	for _, g := range strings.Split(string(buf[:n]), "\n\n") {
		for _, ln := range strings.Split(g, "\n") {
			if strings.HasPrefix(ln, "github.com/jwhited/corebgp.") ||
				strings.HasPrefix(ln, "created by github.com/jwhited/corebgp.") {
				out = append(out, strings.TrimSpace(ln))
				break
			}
		}
	}
	return out
}

type endLine struct {
	K       string   `json:"k"` // "end"
	ID      string   `json:"id"`
	Fail    string   `json:"fail"`    // harness-level failure ("" = none)
	Leak    []string `json:"leak"`    // corebgp goroutines alive after Close returned
	Overlap bool     `json:"overlap"` // session callbacks overlapped in time
	Intact  bool     `json:"intact"`  // slices handed to the handler unmodified
	Unclosed []string `json:"unclosed"` // conns corebgp still holds open at the end
	Stuck   []string `json:"stuck"`   // API calls that never returned
}

// runScript executes one script inside a fresh bubble and writes its lines.
func runScript(t *testing.T, sc scriptJ, w *bufio.Writer) {
	for _, tg := range sc.Tags {
		if tg == "oneP" {
			// run-to-block scheduling: a goroutine woken by a channel hand-over runs only
			// once the waker blocks (one legitimate schedule among many)
			defer runtime.GOMAXPROCS(runtime.GOMAXPROCS(1))
		}
	}
	enc := func(v any) {
		b, err := json.Marshal(v)
		if err != nil {
			panic(err)
		}
		w.Write(b)
		w.WriteByte('\n')
		w.Flush()
	}
	enc(map[string]any{"k": "begin", "id": sc.ID})
	end := endLine{K: "end", ID: sc.ID, Leak: []string{}, Intact: true, Unclosed: []string{}, Stuck: []string{}}
	defer func() {
		if rec := recover(); rec != nil {
			// synctest panics when the bubble's root exits while goroutines
			// remain durably blocked: that is the leak oracle.
			end.Fail = fmt.Sprint("bubble: ", rec)
		}
		enc(end)
	}()
	synctest.Test(t, func(t *testing.T) {
		tr := &tracer{start: time.Now()}
		addrs := sc.Listeners
		if len(addrs) == 0 {
			addrs = []string{"0.0.0.0:179"}
		}
		var liss []*fakeListener
		for _, a := range addrs {
			l := newFakeListener(tr)
			l.addr = fakeAddr(a)
			liss = append(liss, l)
		}
		r := &run{sc: sc, tr: tr, lis: liss[0], liss: liss,
			plugins: map[string]*recPlugin{}, byAddr: map[string]string{},
			conns: map[string]*fakeConn{}, dials: map[string][]*pendingDial{},
			nDials: map[string]int{}}
		rid, err := netip.ParseAddr(sc.RouterID)
		if err != nil {
			end.Fail = "bad router id"
			return
		}
		r.srv, err = corebgp.NewServer(rid)
		if err != nil {
			end.Fail = "NewServer: " + err.Error()
			return
		}
		for _, p := range sc.Peers {
			pl := &recPlugin{r: r, cfg: p, gates: map[string]chan struct{}{}, ncb: map[string]int{}}
			for _, g := range p.Gates {
				pl.gates[g] = make(chan struct{})
			}
			r.plugins[p.Name] = pl
			ra, _ := netip.ParseAddr(p.Remote)
			r.byAddr[ra.String()] = p.Name
		}
		corebgp.VerifSetDialHook(r.dialHook)
		defer corebgp.VerifSetDialHook(nil)
		// schedule point inside the FSM goroutine, right after the k-th approved
		// transition of that direction: gate "ent-out#k" / "ent-in#k"
		corebgp.VerifSetFSMHook(func(remote netip.Addr, outbound bool) {
			if pl := r.plugins[r.byAddr[remote.String()]]; pl != nil {
				if outbound {
					pl.hold("ent-out")
				} else {
					pl.hold("ent-in")
				}
			}
		})
		defer corebgp.VerifSetFSMHook(nil)
		curRun.Store(r)
		defer curRun.Store(nil)

		closed := false
		for i, st := range sc.Steps {
			if err := r.doStep(st); err != nil {
				end.Fail = fmt.Sprintf("step %d: %v", i, err)
				break
			}
			if st.Op == "close" {
				closed = true
			}
			for _, sub := range st.Multi {
				if sub.Op == "close" {
					closed = true
				}
			}
			synctest.Wait()
			enc(obsLine{K: "obs", I: i, T: r.tr.nowUnits(), Ev: r.tr.take(), Pend: r.pend(), Void: r.voids()})
		}
		// epilogue: open every gate, let every connection be read again, make sure
		// the server is closed, then judge leaks
		for _, c := range r.conns {
			c.stall(false)
		}
		r.lis.release()
		for _, pl := range r.plugins {
			for _, g := range pl.cfg.Gates {
				pl.release(g)
			}
		}
		if !closed {
			go func() {
				r.srv.Close()
				r.tr.emit(event{E: "ret", N: "close", R: "nil"})
			}()
			synctest.Wait()
		}
		// let goroutines that are merely unwinding finish
		synctest.Wait()
		final := r.tr.take()
		enc(obsLine{K: "obs", I: -1, T: r.tr.nowUnits(), Ev: final, Pend: r.pend(), Void: r.voids()})
		end.Leak = append(end.Leak, corebgpGoroutines()...)
		for _, pl := range r.plugins {
			pl.mu.Lock()
			if pl.overlap {
				end.Overlap = true
			}
			pl.mu.Unlock()
			if !pl.retainedIntact() {
				end.Intact = false
			}
		}
		for n, c := range r.conns {
			c.mu.Lock()
			if c.held && !c.closed {
				end.Unclosed = append(end.Unclosed, n)
			}
			c.mu.Unlock()
		}
		// release dials that are still pending so the bubble can end
		r.mu.Lock()
		for _, ds := range r.dials {
			for _, pd := range ds {
				if !pd.done {
					select {
					case pd.ch <- dialDecision{err: errors.New("harness: end of script")}:
					default:
					}
				}
			}
		}
		r.mu.Unlock()
	})
}

// RunFile executes every script of an ndjson file and writes the trace file.
func RunFile(t *testing.T, in, out string) {
	corebgp.SetLogger(logDispatch)
	f, err := os.Open(in)
	if err != nil {
		t.Fatal(err)
	}
	defer f.Close()
	of, err := os.Create(out)
	if err != nil {
		t.Fatal(err)
	}
	defer of.Close()
	w := bufio.NewWriterSize(of, 1<<20)
	defer w.Flush()
	sc := bufio.NewScanner(f)
	sc.Buffer(make([]byte, 1<<20), 1<<28)
	for sc.Scan() {
		line := sc.Bytes()
		if len(line) == 0 {
			continue
		}
		var s scriptJ
		if err := json.Unmarshal(line, &s); err != nil {
			t.Fatalf("bad script line: %v", err)
		}
		runScript(t, s, w)
	}
}
