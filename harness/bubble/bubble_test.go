package bubble

import (
	"os"
	"testing"
)

// TestRun executes the scripts in $VERIF_SCRIPTS and writes $VERIF_TRACES.
func TestRun(t *testing.T) {
	in, out := os.Getenv("VERIF_SCRIPTS"), os.Getenv("VERIF_TRACES")
	if in == "" || out == "" {
		t.Skip("VERIF_SCRIPTS / VERIF_TRACES not set")
	}
	RunFile(t, in, out)
}
