package main

import (
	"io"
	"math/rand"
	"net"
	"time"

	"github.com/jwhited/corebgp"
)

func capsRec(cs []corebgp.Capability) []rec {
	out := []rec{}
	for _, c := range cs {
		out = append(out, rec{"code": int(c.Code), "val": ints(c.Value)})
	}
	return out
}

func viewRec(v corebgp.VerifOpen) rec {
	ps := [][]rec{}
	for _, p := range v.Params {
		ps = append(ps, capsRec(p))
	}
	return rec{"version": int(v.Version), "as2": int(v.ASN), "hold": int(v.HoldTime), "id": u32b(v.BGPID), "params": ps}
}

var emptyView = rec{"version": 0, "as2": 0, "hold": 0, "id": []int{0, 0, 0, 0}, "params": [][]rec{}}

// errNotif renders an error of the OPEN / header path: the NOTIFICATION to send, if any.
func errNotif(err error) rec {
	if err == nil {
		return rec{"kind": "nil", "n": notifRec(nil)}
	}
	if n, out, ok := corebgp.VerifNotifErr(err); ok && out {
		return rec{"kind": "notif", "n": notifRec(n)}
	}
	if err == io.EOF || err == io.ErrUnexpectedEOF {
		return rec{"kind": "eof", "n": notifRec(nil)}
	}
	return rec{"kind": "other", "n": notifRec(nil)}
}

func safely(r rec, fn func()) {
	defer func() {
		if p := recover(); p != nil {
			r["panic"] = true
		}
	}()
	fn()
}

// ---- OPEN body builder (mirrors the script-side builder)
func capB(code byte, val []byte) []byte { return append([]byte{code, byte(len(val))}, val...) }
func u32B(v uint32) []byte               { return []byte{byte(v >> 24), byte(v >> 16), byte(v >> 8), byte(v)} }

func openBody(version byte, as2 uint16, hold uint16, id uint32, params []byte) []byte {
	b := []byte{version, byte(as2 >> 8), byte(as2), byte(hold >> 8), byte(hold)}
	b = append(b, u32B(id)...)
	b = append(b, byte(len(params)))
	return append(b, params...)
}

func capsParam(caps ...[]byte) []byte {
	var cb []byte
	for _, c := range caps {
		cb = append(cb, c...)
	}
	return append([]byte{2, byte(len(cb))}, cb...)
}

func openBodies(rnd *rand.Rand, remoteAS uint32, localID uint32, thorough bool) [][]byte {
	as2 := uint16(23456)
	if remoteAS <= 65535 {
		as2 = uint16(remoteAS)
	}
	good4 := capB(65, u32B(remoteAS))
	goodP := capsParam(good4)
	rid := uint32(10<<24 | 2)
	var out [][]byte
	for _, v := range []byte{4, 0, 3, 5, 255} {
		out = append(out, openBody(v, as2, 90, rid, goodP))
	}
	for _, a := range []uint16{as2, 23456, 0, 64999} {
		out = append(out, openBody(4, a, 90, rid, goodP))
	}
	for _, h := range []uint16{90, 0, 1, 2, 3, 65535} {
		out = append(out, openBody(4, as2, h, rid, goodP))
	}
	for _, id := range []uint32{rid, localID, 0, 224 << 24, 239<<24 | 0xFFFFFF, 0xFFFFFFFF, 223<<24 | 0xFFFFFF, 240 << 24} {
		out = append(out, openBody(4, as2, 90, id, goodP))
	}
	mp := capB(1, []byte{0, 1, 0, 1})
	lists := [][]byte{capsParam(), capsParam(mp, good4), capsParam(good4, capB(2, nil), capB(64, make([]byte, 6))),
		capsParam(capB(65, u32B(remoteAS^1))), capsParam(capB(65, []byte{0, 0, 1})), capsParam(capB(65, nil)),
		capsParam(capB(65, []byte{0, 0, 0, 1, 2})), capsParam(mp), capsParam(good4, good4),
		capsParam(good4, capB(65, u32B(remoteAS^1))), capsParam(capB(65, u32B(remoteAS^1)), good4),
		nil, append(capsParam(good4), 2, 2, 2, 0), append([]byte{2, 2, 2, 0}, capsParam(good4)...),
		append([]byte{1, 0}, capsParam(good4)...), append(capsParam(good4), 3, 1, 9), append([]byte{255, 0}, capsParam(good4)...),
		{2, 0}, append([]byte{2, 0}, capsParam(good4)...), append(capsParam(good4), 2), append([]byte{2, 7}, good4...),
		{2, 6, 65, 5, 0, 0, 0, 1}, append(append([]byte{2, 7}, good4...), 1), {0, 0}}
	for _, l := range lists {
		out = append(out, openBody(4, as2, 90, rid, l))
		out = append(out, openBody(4, 23456, 90, rid, l))
	}
	if remoteAS > 65535 {
		out = append(out, openBody(4, uint16(remoteAS), 90, rid, goodP), openBody(4, uint16(remoteAS>>16), 90, rid, goodP))
	}
	// random layouts: 1-3 capability parameters with 1-3 capabilities each
	pool := [][]byte{mp, capB(1, []byte{0, 2, 0, 1}), capB(2, nil), capB(64, []byte{0, 120, 0, 1, 1, 0}), capB(69, []byte{0, 1, 1, 3}),
		capB(70, nil), capB(128, nil), capB(73, []byte{1, 65, 0})}
	nl := 60
	if thorough {
		nl = 3000
	}
	for i := 0; i < nl; i++ {
		np := 1 + rnd.Intn(3)
		params := make([][][]byte, np)
		for p := range params {
			for c := 0; c < 1+rnd.Intn(3); c++ {
				params[p] = append(params[p], pool[rnd.Intn(len(pool))])
			}
		}
		kind := rnd.Intn(5)
		if kind < 4 {
			pi := rnd.Intn(np)
			at := rnd.Intn(len(params[pi]) + 1)
			c4 := good4
			if kind == 3 {
				c4 = capB(65, u32B(remoteAS^256))
			}
			params[pi] = append(params[pi][:at], append([][]byte{c4}, params[pi][at:]...)...)
		}
		var pl []byte
		for _, p := range params {
			pl = append(pl, capsParam(p...)...)
		}
		out = append(out, openBody(4, as2, 90, rid, pl))
	}
	// parameter regions longer than 255 octets made of well-formed capability parameters: the one-octet
	// Optional Parameters Length can only agree with them modulo 256
	for _, total := range []int{256, 258, 264, 280, 512 + 8} {
		var pl []byte
		pl = append(pl, capsParam(good4)...) // 8 octets
		for len(pl)+6 <= total {
			pl = append(pl, capsParam(capB(2, nil), capB(70, nil))...) // 6 octets each
		}
		for len(pl) < total {
			pl = append(pl, capsParam(capB(2, nil))...) // 4 octets
		}
		if len(pl) == total {
			b := []byte{4, byte(as2 >> 8), byte(as2), 0, 90}
			b = append(b, u32B(rid)...)
			b = append(b, byte(total)) // total mod 256
			out = append(out, append(b, pl...))
		}
	}
	good := openBody(4, as2, 90, rid, capsParam(mp, good4))
	for _, d := range []int{-1, 1, -9} {
		b := append([]byte{}, good...)
		b[9] = byte(int(b[9]) + d)
		out = append(out, b)
	}
	for cut := 0; cut < len(good); cut++ {
		out = append(out, good[:cut])
	}
	out = append(out, append(append([]byte{}, good...), 0), append(append([]byte{}, good...), 2, 0))
	// every short string over a protocol alphabet in the parameter region
	alpha := []byte{0, 1, 2, 4, 65, 255, byte(remoteAS >> 8), byte(remoteAS)}
	ml := 4
	if thorough {
		ml = 5
	}
	for _, s := range shortStrings(alpha, ml) {
		out = append(out, openBody(4, as2, 90, rid, s))
	}
	n := 300
	if thorough {
		n = 20000
	}
	for i := 0; i < n; i++ {
		ln := []int{0, 1, 9, 10, 11, 12, 16, 29, 40, 300, 4077}[rnd.Intn(11)]
		b := make([]byte, ln)
		for k := range b {
			b[k] = []byte{0, 1, 2, 4, 6, 65, 255, byte(rnd.Intn(256))}[rnd.Intn(8)]
		}
		if ln >= 10 && rnd.Intn(10) < 7 {
			b[0] = 4
			b[9] = byte(ln - 10)
		}
		out = append(out, b)
	}
	return out
}

func genOpenVal(out *sink, rnd *rand.Rand, thorough bool) {
	cfgs := [][3]uint32{{65001, 65002, 10<<24 | 1}, {65002, 65002, 10<<24 | 1}, {65001, 4200000002, 10<<24 | 1},
		{4200000002, 4200000002, 10<<24 | 9}, {65001, 23456, 10<<24 | 1}}
	for _, c := range cfgs {
		for _, b := range openBodies(rnd, c[1], c[2], thorough) {
			r := rec{"panic": false, "decoded": false, "ok": false, "e": errNotif(nil), "view": emptyView, "caps": []rec{}}
			safely(r, func() {
				v, caps, decoded, err := corebgp.VerifOpenValidate(append([]byte{}, b...), c[2], c[0], c[1])
				r["decoded"], r["ok"], r["e"] = decoded, err == nil, errNotif(err)
				if decoded {
					r["view"], r["caps"] = viewRec(v), capsRec(caps)
				}
			})
			out.put(rec{"f": "openval", "b": ints(b), "cfg": rec{"localAS": u32b(c[0]), "remoteAS": u32b(c[1]),
				"localID": u32b(c[2]), "hold": 90}, "r": r})
		}
	}
}

func genOpenEnc(out *sink, rnd *rand.Rand, thorough bool) {
	lases := []uint32{1, 65535, 65536, 23456, 4294967295, 64512}
	holds := []int{0, 3, 90, 65535}
	ids := []uint32{1, 10<<24 | 1, 0xFFFFFFFE}
	vlens := []int{0, 1, 4, 100, 245, 246, 247, 252, 253, 254, 255, 256, 300}
	codes := []byte{0, 1, 2, 64, 65, 69, 255}
	n := 3000
	if thorough {
		n = 100000
	}
	for i := 0; i < n; i++ {
		var caps []corebgp.Capability
		k := []int{0, 1, 1, 2, 3, 5, 10, 40}[rnd.Intn(8)]
		for j := 0; j < k; j++ {
			l := vlens[rnd.Intn(4)]
			if rnd.Intn(5) == 0 {
				l = vlens[rnd.Intn(len(vlens))]
			}
			if k >= 10 {
				l = rnd.Intn(8)
			}
			v := make([]byte, l)
			rnd.Read(v)
			caps = append(caps, corebgp.Capability{Code: codes[rnd.Intn(len(codes))], Value: v})
		}
		as, h, id := lases[rnd.Intn(len(lases))], holds[rnd.Intn(len(holds))], ids[rnd.Intn(len(ids))]
		r := rec{"panic": false, "ok": false, "b": []int{}}
		safely(r, func() {
			b, err := corebgp.VerifNewOpen(as, time.Duration(h)*time.Second, id, caps)
			r["ok"] = err == nil
			if err == nil {
				r["b"] = ints(b)
			}
		})
		out.put(rec{"f": "newopen", "cfg": rec{"localAS": u32b(as), "remoteAS": u32b(0), "localID": u32b(id), "hold": h},
			"caps": capsRec(caps), "r": r})
	}
}

// ---- framing: the FSM's reader on a byte stream
type byteConn struct {
	net.Conn
	b []byte
}

func (c *byteConn) Read(p []byte) (int, error) {
	if len(c.b) == 0 {
		return 0, io.EOF
	}
	n := copy(p, c.b)
	if n > 7 { // deliver in uneven pieces
		n = 7
	}
	c.b = c.b[n:]
	return n, nil
}

func runDeframe(stream []byte) rec {
	r := rec{"panic": false, "msgs": []rec{}, "end": errNotif(nil)}
	msgs := []rec{}
	safely(r, func() {
		err := corebgp.VerifReadMessages(&byteConn{b: append([]byte{}, stream...)},
			func(t uint8, upd []byte, n *corebgp.Notification, o *corebgp.VerifOpen) {
				m := rec{"type": int(t), "body": []int{}, "n": notifRec(nil)}
				if upd != nil {
					m["body"] = ints(upd)
				}
				if n != nil {
					m["n"] = notifRec(n)
				}
				msgs = append(msgs, m)
			})
		r["end"] = errNotif(err)
	})
	r["msgs"] = msgs
	return r
}

func hdr(marker []byte, length int, typ byte) []byte {
	b := append([]byte{}, marker...)
	return append(b, byte(length>>8), byte(length), typ)
}

func genDeframe(out *sink, rnd *rand.Rand, thorough bool) {
	ff := make([]byte, 16)
	for i := range ff {
		ff[i] = 0xFF
	}
	emit := func(s []byte) { out.put(rec{"f": "deframe", "b": ints(s), "r": runDeframe(s)}) }
	ka := hdr(ff, 19, 4)
	upd := append(hdr(ff, 23, 2), 1, 2, 3, 4)
	pre := [][]byte{nil, ka, append(append([]byte{}, upd...), ka...)}
	body := func(length int) []byte {
		n := length - 19
		if n < 0 || length > 4096 {
			n = 3
		}
		return counter(n)
	}
	// marker corruptions
	for pos := 0; pos < 16; pos++ {
		for _, v := range []byte{0x00, 0xFE, 0x7F} {
			m := append([]byte{}, ff...)
			m[pos] = v
			for _, p := range pre {
				emit(append(append(append([]byte{}, p...), hdr(m, 19, 4)...), ka...))
			}
		}
	}
	// several faults in one header: marker, then length, then type decides
	for _, pos := range []int{0, 7, 15} {
		m := append([]byte{}, ff...)
		m[pos] = 0x01
		for _, l := range []int{0, 18, 19, 4096, 4097, 65535} {
			for _, t := range []byte{0, 4, 9, 255} {
				emit(append(hdr(m, l, t), ka...))
			}
		}
	}
	for _, l := range []int{0, 1, 18, 4097, 65535} {
		for _, t := range []byte{0, 5, 9, 255} {
			emit(append(hdr(ff, l, t), ka...))
		}
	}
	lengths := []int{0, 1, 18, 19, 20, 28, 29, 4095, 4096, 4097, 65535}
	types := []int{0, 1, 2, 3, 4, 5, 6, 255}
	if thorough {
		lengths = nil
		for l := 0; l < 65536; l++ {
			lengths = append(lengths, l)
		}
	}
	for _, l := range lengths {
		ts := types
		if thorough {
			ts = []int{0, 2, 3, 4, 5}
		}
		for _, t := range ts {
			if thorough && l > 300 && l < 4000 && (l+t)%7 != 0 {
				continue // the legal interior is sampled, the boundaries are exhaustive
			}
			s := append(hdr(ff, l, byte(t)), body(l)...)
			emit(append(s, ka...))
		}
	}
	for t := 0; t < 256; t++ {
		for _, l := range []int{19, 21, 23} {
			p := pre[t%3]
			s := append(append([]byte{}, p...), hdr(ff, l, byte(t))...)
			s = append(s, counter(l-19)...)
			emit(append(s, upd...))
		}
	}
	// truncations of a valid stream at every offset
	valid := append(append(append([]byte{}, upd...), ka...), append(hdr(ff, 21, 3), 6, 0)...)
	for cut := 0; cut <= len(valid); cut++ {
		emit(valid[:cut])
	}
	n := 500
	if thorough {
		n = 20000
	}
	for i := 0; i < n; i++ {
		var s []byte
		for k := 0; k < 1+rnd.Intn(4); k++ {
			l := 19 + rnd.Intn(30)
			m := append(hdr(ff, l, byte(1+rnd.Intn(4))), make([]byte, l-19)...)
			rnd.Read(m[19:])
			if rnd.Intn(3) == 0 {
				m[rnd.Intn(len(m))] ^= byte(1 << rnd.Intn(8))
			}
			s = append(s, m...)
		}
		emit(s)
	}
}

func genCodec(out *sink, rnd *rand.Rand, thorough bool) {
	// NOTIFICATION: encode then decode
	codes := []int{0, 1, 2, 3, 4, 5, 6, 7, 8, 255}
	subs := []int{0, 1, 2, 3, 4, 5, 6, 7, 8, 9, 10, 11, 255}
	dls := []int{0, 1, 2, 3, 4, 255, 4074, 4075}
	if thorough {
		dls = nil
		for l := 0; l <= 4075; l++ {
			dls = append(dls, l)
		}
	}
	for _, dl := range dls {
		for ci, c := range codes {
			for si, s := range subs {
				if (thorough || dl > 4) && (ci+si+dl)%17 != 0 {
					continue
				}
				d := make([]byte, dl)
				rnd.Read(d)
				r := rec{"panic": false, "enc": []int{}, "dec": rec{"ok": false, "n": notifRec(nil)}}
				safely(r, func() {
					b, _ := corebgp.VerifNotificationEncode(&corebgp.Notification{Code: uint8(c), Subcode: uint8(s), Data: d})
					r["enc"] = ints(b)
					if len(b) >= 19 {
						n, err := corebgp.VerifNotificationDecode(b[19:])
						r["dec"] = rec{"ok": err == nil, "n": notifRec(n)}
					}
				})
				out.put(rec{"f": "notif", "code": c, "sub": s, "data": ints(d), "r": r})
			}
		}
	}
	// NOTIFICATION data that looks like an RFC 9003 shutdown communication (a length octet first), for every
	// relation between that octet and the real length, and data longer than 255 octets
	for _, cs := range [][2]int{{6, 2}, {6, 4}, {6, 1}, {3, 1}} {
		for _, total := range []int{1, 2, 3, 5, 129, 256, 257, 300, 4075} {
			for _, first := range []int{0, 1, total - 2, total - 1, total, 255} {
				if first < 0 {
					continue
				}
				d := counter(total)
				d[0] = byte(first)
				r := rec{"panic": false, "enc": []int{}, "dec": rec{"ok": false, "n": notifRec(nil)}}
				safely(r, func() {
					b, _ := corebgp.VerifNotificationEncode(&corebgp.Notification{Code: uint8(cs[0]), Subcode: uint8(cs[1]), Data: d})
					r["enc"] = ints(b)
					if len(b) >= 19 {
						n, err := corebgp.VerifNotificationDecode(b[19:])
						r["dec"] = rec{"ok": err == nil, "n": notifRec(n)}
					}
				})
				out.put(rec{"f": "notif", "code": cs[0], "sub": cs[1], "data": ints(d), "r": r})
				// and decoding the body directly
				body := append([]byte{byte(cs[0]), byte(cs[1])}, d...)
				r2 := rec{"panic": false, "dec": rec{"ok": false, "n": notifRec(nil)}, "reenc": []int{}}
				safely(r2, func() {
					n, err := corebgp.VerifNotificationDecode(append([]byte{}, body...))
					r2["dec"] = rec{"ok": err == nil, "n": notifRec(n)}
					if err == nil {
						e, _ := corebgp.VerifNotificationEncode(n)
						r2["reenc"] = ints(e)
					}
				})
				out.put(rec{"f": "notifdec", "b": ints(body), "r": r2})
			}
		}
	}
	// NOTIFICATION: decode arbitrary bodies, re-encode what was accepted
	for _, s := range shortStrings([]byte{0, 1, 6, 255}, 4) {
		r := rec{"panic": false, "dec": rec{"ok": false, "n": notifRec(nil)}, "reenc": []int{}}
		safely(r, func() {
			n, err := corebgp.VerifNotificationDecode(append([]byte{}, s...))
			r["dec"] = rec{"ok": err == nil, "n": notifRec(n)}
			if err == nil {
				b, _ := corebgp.VerifNotificationEncode(n)
				r["reenc"] = ints(b)
			}
		})
		out.put(rec{"f": "notifdec", "b": ints(s), "r": r})
	}
	// OPEN: decode arbitrary bodies; re-encode what was accepted
	for _, b := range openBodies(rnd, 65002, 10<<24|1, thorough) {
		r := rec{"panic": false, "ok": false, "e": errNotif(nil), "view": emptyView, "reenc": []int{}}
		safely(r, func() {
			v, err := corebgp.VerifOpenDecode(append([]byte{}, b...))
			r["ok"], r["e"] = err == nil, errNotif(err)
			if err == nil {
				r["view"] = viewRec(v)
				e, _ := corebgp.VerifOpenEncode(v)
				r["reenc"] = ints(e)
			}
		})
		out.put(rec{"f": "opendec", "b": ints(b), "r": r})
	}
	// OPEN: encode representable views, decode back
	n := 1500
	if thorough {
		n = 40000
	}
	for i := 0; i < n; i++ {
		v := corebgp.VerifOpen{Version: uint8(rnd.Intn(256)), ASN: uint16(rnd.Intn(65536)), HoldTime: uint16(rnd.Intn(65536)),
			BGPID: rnd.Uint32()}
		total := 0
		for p := 0; p < 1+rnd.Intn(3); p++ {
			var caps []corebgp.Capability
			plen := 0
			for c := 0; c < 1+rnd.Intn(4); c++ {
				l := []int{0, 1, 4, 4, 8, 60}[rnd.Intn(6)]
				if plen+2+l > 120 {
					break
				}
				val := make([]byte, l)
				rnd.Read(val)
				caps = append(caps, corebgp.Capability{Code: uint8(rnd.Intn(256)), Value: val})
				plen += 2 + l
			}
			if len(caps) == 0 || total+2+plen > 255 {
				break
			}
			total += 2 + plen
			v.Params = append(v.Params, caps)
		}
		if len(v.Params) == 0 {
			v.Params = [][]corebgp.Capability{{{Code: 65, Value: []byte{0, 0, 0, 1}}}}
		}
		r := rec{"panic": false, "enc": []int{}, "ok": false, "view": emptyView}
		safely(r, func() {
			b, err := corebgp.VerifOpenEncode(v)
			if err != nil {
				return
			}
			r["enc"] = ints(b)
			d, err := corebgp.VerifOpenDecode(b[19:])
			r["ok"] = err == nil
			if err == nil {
				r["view"] = viewRec(d)
			}
		})
		out.put(rec{"f": "openenc", "view": viewRec(v), "r": r})
	}
	// add-path tuples and capability helpers
	for _, s := range shortStrings([]byte{0, 1, 2, 3, 4, 255}, 4) {
		putAddPath(out, s)
	}
	for v := 0; v < 256; v++ {
		putAddPath(out, []byte{0, 1, 1, byte(v)})
		putAddPath(out, []byte{0, 2, 128, 3, 255, 255, 0, byte(v)})
	}
	for i := 0; i < 200; i++ {
		b := make([]byte, 4*(1+rnd.Intn(3))+[]int{0, 0, 0, 1, 3}[rnd.Intn(5)])
		for k := range b {
			b[k] = byte(rnd.Intn(4))
		}
		putAddPath(out, b)
	}
	for _, n := range []int{62, 63, 64, 65, 100, 255, 256, 1000} {
		b := make([]byte, 0, 4*n)
		for i := 0; i < n; i++ {
			b = append(b, byte(i>>8), byte(i), 1, byte(1+i%3))
		}
		putAddPath(out, b)
		for _, bad := range []int{0, n / 2, n - 1} {
			c := append([]byte{}, b...)
			c[4*bad+3] = 0
			putAddPath(out, c)
		}
	}
	for _, afi := range []int{0, 1, 2, 65535} {
		for _, safi := range []int{0, 1, 128, 255} {
			c := corebgp.NewMPExtensionsCapability(uint16(afi), uint8(safi))
			out.put(rec{"f": "mpcap", "afi": afi, "safi": safi, "r": rec{"code": int(c.Code), "val": ints(c.Value)}})
			for _, tx := range []bool{false, true} {
				for _, rx := range []bool{false, true} {
					t := corebgp.AddPathTuple{AFI: uint16(afi), SAFI: uint8(safi), Tx: tx, Rx: rx}
					c := corebgp.NewAddPathCapability([]corebgp.AddPathTuple{t, t})
					out.put(rec{"f": "addpathenc", "afi": afi, "safi": safi, "tx": tx, "rx": rx,
						"r": rec{"one": ints(t.Encode()), "code": int(c.Code), "val": ints(c.Value)}})
				}
			}
		}
	}
}

func putAddPath(out *sink, b []byte) {
	r := rec{"panic": false, "ok": false, "tuples": []rec{}, "reenc": []int{}, "isn": false}
	safely(r, func() {
		ts, err := corebgp.DecodeAddPathTuples(append([]byte{}, b...))
		r["ok"] = err == nil
		if err != nil {
			_, r["isn"] = err.(*corebgp.Notification)
			return
		}
		tr := []rec{}
		for _, t := range ts {
			tr = append(tr, rec{"afi": int(t.AFI), "safi": int(t.SAFI), "tx": t.Tx, "rx": t.Rx})
		}
		r["tuples"] = tr
		r["reenc"] = ints(corebgp.NewAddPathCapability(ts).Value)
	})
	out.put(rec{"f": "addpath", "b": ints(b), "r": r})
}

func genBig(out *sink, rnd *rand.Rand, thorough bool) {
	// inputs above 65535 bytes with extreme length fields (the uint16 wrap region)
	for _, extra := range []int{0, 1, 2, 3, 100} {
		for _, wrl := range []int{65533, 65534, 65535, 0, 4} {
			for _, pal := range []int{0, 65535, 3} {
				b := make([]byte, 65536+extra)
				for i := range b {
					b[i] = byte(i * 13)
				}
				b[0], b[1] = byte(wrl>>8), byte(wrl)
				if 2+wrl+1 < len(b) {
					b[2+wrl], b[3+wrl] = byte(pal>>8), byte(pal)
				}
				out.put(rec{"f": "update", "b": ints(b), "replies": []rec{}, "r": runUpdate(b, nil)})
			}
		}
	}
	// every other exported decoder on large and random slices: only "returns, does not panic"
	sizes := []int{0, 1, 255, 256, 4096, 65535, 65536, 70000}
	for _, n := range sizes {
		b := make([]byte, n)
		rnd.Read(b)
		for _, t := range attrTypes {
			r := runAttr(t, byte(rnd.Intn(256)), b)
			out.put(rec{"f": "nopanic", "what": "attr", "r": rec{"panic": r["panic"]}})
		}
		for _, e := range []string{"nlri", "nlriap", "wd", "wdap", "mp6", "mp6ap"} {
			out.put(rec{"f": "nopanic", "what": e, "r": rec{"panic": runPrefix(e, b)["panic"]}})
		}
		out.put(rec{"f": "nopanic", "what": "mpreach", "r": rec{"panic": runMPReach(0x80, b)["panic"]}})
		out.put(rec{"f": "nopanic", "what": "mpunreach", "r": rec{"panic": runMPUnreach(0x80, b)["panic"]}})
		out.put(rec{"f": "nopanic", "what": "v6nh", "r": rec{"panic": runV6NH(b)["panic"]}})
		r := rec{"panic": false}
		safely(r, func() { corebgp.DecodeAddPathTuples(b) })
		out.put(rec{"f": "nopanic", "what": "addpath", "r": r})
		if n <= 4096 {
			out.put(rec{"f": "nopanic", "what": "deframe", "r": rec{"panic": runDeframe(b)["panic"]}})
		}
	}
}
