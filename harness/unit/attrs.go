package main

import (
	"math/rand"
	"net/netip"

	"github.com/jwhited/corebgp"
)

var attrTypes = []uint8{1, 2, 3, 4, 5, 6, 7, 8, 9, 10, 32}

func addrBytes(a netip.Addr) []int {
	if !a.IsValid() {
		return []int{}
	}
	return ints(a.AsSlice())
}

// runAttr calls the typed decoder for attribute type t.
func runAttr(t uint8, flags uint8, b []byte) (r rec) {
	r = rec{"panic": false, "ok": false, "val": []int{}, "val2": []int{}, "err": dump(nil)}
	defer func() {
		if p := recover(); p != nil {
			r["panic"] = true
		}
	}()
	f := corebgp.PathAttrFlags(flags)
	in := make([]byte, len(b))
	copy(in, b)
	var err error
	val, val2 := []int{}, []int{}
	switch t {
	case 1:
		var a corebgp.OriginPathAttr
		err = a.Decode(f, in)
		val = []int{int(a)}
	case 2:
		var a corebgp.ASPathAttr
		err = a.Decode(f, in)
		for _, v := range a.ASSet {
			val = append(val, u32b(v)...)
		}
		for _, v := range a.ASSequence {
			val2 = append(val2, u32b(v)...)
		}
	case 3:
		var a corebgp.NextHopPathAttr
		err = a.Decode(f, in)
		val = addrBytes(netip.Addr(a))
	case 4:
		var a corebgp.MEDPathAttr
		err = a.Decode(f, in)
		val = u32b(uint32(a))
	case 5:
		var a corebgp.LocalPrefPathAttr
		err = a.Decode(f, in)
		val = u32b(uint32(a))
	case 6:
		var a corebgp.AtomicAggregatePathAttr
		err = a.Decode(f, in)
		if a {
			val = []int{1}
		}
	case 7:
		var a corebgp.AggregatorPathAttr
		err = a.Decode(f, in)
		val = append(u32b(a.AS), addrBytes(a.IP)...)
	case 8:
		var a corebgp.CommunitiesPathAttr
		err = a.Decode(f, in)
		for _, v := range a {
			val = append(val, u32b(v)...)
		}
	case 9:
		var a corebgp.OriginatorIDPathAttr
		err = a.Decode(f, in)
		val = addrBytes(netip.Addr(a))
	case 10:
		var a corebgp.ClusterListPathAttr
		err = a.Decode(f, in)
		for _, v := range a {
			val = append(val, addrBytes(v)...)
		}
	case 32:
		var a corebgp.LargeCommunitiesPathAttr
		err = a.Decode(f, in)
		for _, v := range a {
			val = append(val, u32b(v.GlobalAdmin)...)
			val = append(val, u32b(v.LocalData1)...)
			val = append(val, u32b(v.LocalData2)...)
		}
	}
	r["ok"] = err == nil
	r["err"] = dump(err)
	if err == nil {
		r["val"] = val
		r["val2"] = val2
	}
	r["acc"] = []bool{f.Optional(), f.Transitive(), f.Partial(), f.ExtendedLen()}
	return r
}

func counter(n int) []byte {
	b := make([]byte, n)
	for i := range b {
		b[i] = byte(i*7 + 1)
	}
	return b
}

func shortStrings(alpha []byte, maxLen int) [][]byte {
	out := [][]byte{{}}
	last := [][]byte{{}}
	for l := 1; l <= maxLen; l++ {
		var next [][]byte
		for _, p := range last {
			for _, a := range alpha {
				q := append(append([]byte{}, p...), a)
				next = append(next, q)
			}
		}
		out = append(out, next...)
		last = next
	}
	return out
}

func asPathValues(rnd *rand.Rand, n int) [][]byte {
	var out [][]byte
	types := []byte{0, 1, 2, 3, 4, 255}
	counts := []int{0, 1, 2, 3, 63, 255}
	// systematic: up to 3 segments
	for s := 1; s <= 3; s++ {
		for k := 0; k < n; k++ {
			var b []byte
			for j := 0; j < s; j++ {
				t := types[rnd.Intn(len(types))]
				if rnd.Intn(3) > 0 {
					t = byte(1 + rnd.Intn(2))
				}
				c := counts[rnd.Intn(len(counts))]
				if rnd.Intn(3) > 0 {
					c = 1 + rnd.Intn(3)
				}
				b = append(b, t, byte(c))
				for i := 0; i < c*4; i++ {
					b = append(b, byte(rnd.Intn(256)))
				}
			}
			out = append(out, b)
			if rnd.Intn(3) == 0 && len(b) > 0 { // truncation
				out = append(out, b[:rnd.Intn(len(b))])
			}
		}
	}
	// same-type multi-segment paths (no AS number may be lost)
	out = append(out, []byte{2, 1, 0, 0, 0, 1, 2, 1, 0, 0, 0, 2}, []byte{1, 1, 0, 0, 0, 1, 1, 2, 0, 0, 0, 2, 0, 0, 0, 3},
		[]byte{2, 2, 0, 0, 0, 1, 0, 0, 0, 2, 1, 1, 0, 0, 0, 9, 2, 1, 0, 0, 0, 3})
	return out
}

func genAttrs(out *sink, rnd *rand.Rand, thorough bool) {
	alpha := []byte{0, 1, 2, 3, 255}
	base := shortStrings(alpha, 2)
	for n := 0; n <= 13; n++ {
		base = append(base, counter(n))
	}
	for _, n := range []int{16, 24, 36, 255, 256, 4095, 4096} {
		base = append(base, counter(n))
	}
	emit := func(t uint8, flags uint8, b []byte) {
		out.put(rec{"f": "attr", "type": int(t), "flags": int(flags), "b": ints(b), "r": runAttr(t, flags, b)})
	}
	want := map[uint8]uint8{1: 0x40, 2: 0x40, 3: 0x40, 4: 0x80, 5: 0x40, 6: 0x40, 7: 0xC0, 8: 0xC0, 9: 0x80, 10: 0x80, 32: 0xC0}
	good := map[uint8][]byte{1: {1}, 2: {2, 1, 0, 0, 0, 7}, 3: {10, 0, 0, 1}, 4: {0, 0, 0, 5}, 5: {0, 0, 0, 100}, 6: {},
		7: {0, 0, 253, 232, 10, 0, 0, 1}, 8: {255, 255, 0, 1}, 9: {1, 2, 3, 4}, 10: {1, 2, 3, 4, 5, 6, 7, 8},
		32: {0, 0, 0, 1, 0, 0, 0, 2, 0, 0, 0, 3}}
	for _, t := range attrTypes {
		vals := append([][]byte{}, base...)
		if t == 2 {
			vals = append(vals, asPathValues(rnd, map[bool]int{false: 15, true: 200}[thorough])...)
		}
		if t == 8 || t == 10 || t == 32 {
			unit := map[uint8]int{8: 4, 10: 4, 32: 12}[t]
			for k := 1; k <= 3; k++ {
				for d := -3; d <= 3; d++ {
					if n := k*unit + d; n >= 0 {
						vals = append(vals, counter(n))
					}
				}
			}
		}
		if thorough {
			for i := 0; i < 300; i++ {
				b := make([]byte, rnd.Intn(4097))
				rnd.Read(b)
				vals = append(vals, b)
			}
		}
		// all 256 flag octets on a well-formed value, a malformed one and the empty one
		for fl := 0; fl < 256; fl++ {
			emit(t, uint8(fl), good[t])
			emit(t, uint8(fl), counter(3))
			emit(t, uint8(fl), nil)
			if thorough {
				for i := 0; i < 6; i++ {
					emit(t, uint8(fl), vals[rnd.Intn(len(vals))])
				}
			}
		}
		// all values with the right flags, right flags + ext/partial, one conflicting combination
		for _, v := range vals {
			emit(t, want[t], v)
			emit(t, want[t]|0x30, v)
			emit(t, want[t]^0x40, v)
		}
	}
}
