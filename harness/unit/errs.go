package main

import (
	"errors"
	"fmt"

	"github.com/jwhited/corebgp"
)

// foreign errors used in reply scripts
type foreignErr struct{ id int }

func (f *foreignErr) Error() string { return fmt.Sprintf("foreign %d", f.id) }

type foreignUE struct {
	id int
	n  *corebgp.Notification
}

func (f *foreignUE) Error() string                         { return fmt.Sprintf("foreignUE %d", f.id) }
func (f *foreignUE) AsSessionReset() *corebgp.Notification { return f.n }

type wrapErr struct{ inner error }

func (w *wrapErr) Error() string { return "wrap: " + w.inner.Error() }
func (w *wrapErr) Unwrap() error { return w.inner }

func notifRec(n *corebgp.Notification) rec {
	if n == nil {
		return rec{"code": -1, "sub": 0, "data": []int{}}
	}
	return rec{"code": int(n.Code), "sub": int(n.Subcode), "data": ints(n.Data)}
}

// dump renders an error tree structurally:
//
//	t: nil | notif | taw | ad | ue | foreign | join | wrap
func dump(err error) rec {
	none := notifRec(nil)
	if err == nil {
		return rec{"t": "nil", "n": none, "acode": 0, "id": 0, "kids": []rec{}}
	}
	switch x := err.(type) {
	case *corebgp.Notification:
		return rec{"t": "notif", "n": notifRec(x), "acode": 0, "id": 0, "kids": []rec{}}
	case *corebgp.TreatAsWithdrawUpdateErr:
		return rec{"t": "taw", "n": notifRec(x.Notification), "acode": int(x.Code), "id": 0, "kids": []rec{}}
	case *corebgp.AttrDiscardUpdateErr:
		return rec{"t": "ad", "n": notifRec(x.Notification), "acode": int(x.Code), "id": 0, "kids": []rec{}}
	case *foreignUE:
		return rec{"t": "ue", "n": notifRec(x.n), "acode": 0, "id": x.id, "kids": []rec{}}
	case *foreignErr:
		return rec{"t": "foreign", "n": none, "acode": 0, "id": x.id, "kids": []rec{}}
	case interface{ Unwrap() []error }:
		kids := []rec{}
		for _, e := range x.Unwrap() {
			kids = append(kids, dump(e))
		}
		return rec{"t": "join", "n": none, "acode": 0, "id": 0, "kids": kids}
	case interface{ Unwrap() error }:
		return rec{"t": "wrap", "n": none, "acode": 0, "id": 0, "kids": []rec{dump(x.Unwrap())}}
	}
	return rec{"t": "foreign", "n": none, "acode": 0, "id": -1, "kids": []rec{}}
}

var _ = errors.New
