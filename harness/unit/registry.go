package main

import (
	"math/rand"
	"net/netip"

	"github.com/jwhited/corebgp"
)

type nopPlugin struct{}

func (nopPlugin) GetCapabilities(corebgp.PeerConfig) []corebgp.Capability { return nil }
func (nopPlugin) OnOpenMessage(corebgp.PeerConfig, netip.Addr, []corebgp.Capability) *corebgp.Notification {
	return nil
}
func (nopPlugin) OnEstablished(corebgp.PeerConfig, corebgp.UpdateMessageWriter) corebgp.UpdateMessageHandler {
	return nil
}
func (nopPlugin) OnClose(corebgp.PeerConfig) {}

var addrKinds = map[string]netip.Addr{
	"invalid": {}, "none": {},
	"v4":     netip.MustParseAddr("192.0.2.7"),
	"v6":     netip.MustParseAddr("2001:db8::7"),
	"mapped": netip.MustParseAddr("::ffff:192.0.2.7"),
	"zoned":  netip.MustParseAddr("fe80::7%eth0"),
}

// genRegistry: the full AddPeer configuration grid and NewServer router ids (C20).
func genRegistry(out *sink, rnd *rand.Rand, thorough bool) {
	for _, id := range []string{"invalid", "v4", "v6", "mapped", "zoned"} {
		_, err := corebgp.NewServer(addrKinds[id])
		out.put(rec{"f": "newserver", "id": id, "r": rec{"ok": err == nil}})
	}
	for _, remote := range []string{"invalid", "v4", "v6", "mapped", "zoned"} {
		for _, local := range []string{"none", "v4", "v6", "mapped"} {
			for _, las := range []uint32{0, 1, 4294967295} {
				for _, ras := range []uint32{0, 1, 4294967295} {
					for _, hold := range []int{0, 1, 2, 3, 65535} {
						for _, port := range []int{-1, 0, 1, 179, 65535, 65536} {
							for _, passive := range []bool{false, true} {
								srv, _ := corebgp.NewServer(netip.MustParseAddr("10.0.0.1"))
								opts := []corebgp.PeerOption{corebgp.WithHoldTime(uint16(hold)), corebgp.WithPort(port)}
								if local != "none" {
									opts = append(opts, corebgp.WithLocalAddress(addrKinds[local]))
								}
								if passive {
									opts = append(opts, corebgp.WithPassive())
								}
								r := rec{"panic": false, "ok": false, "listed": 0, "again": ""}
								safely(r, func() {
									pc := corebgp.PeerConfig{RemoteAddress: addrKinds[remote], LocalAS: las, RemoteAS: ras}
									err := srv.AddPeer(pc, nopPlugin{}, opts...)
									r["ok"] = err == nil
									r["listed"] = len(srv.ListPeers())
									err2 := srv.AddPeer(pc, nopPlugin{}, opts...)
									switch {
									case err2 == nil:
										r["again"] = "nil"
									case err2 == corebgp.ErrPeerAlreadyExists:
										r["again"] = "exists"
									default:
										r["again"] = "invalid"
									}
								})
								out.put(rec{"f": "addpeer", "remote": remote, "local": local, "las0": las == 0, "ras0": ras == 0,
									"hold": hold, "port": port, "passive": passive, "r": r})
							}
						}
					}
				}
			}
		}
	}
}
