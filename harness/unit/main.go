// Command unit runs the pure (codec) half of corebgp on generated inputs and
// records every call with its outcome as ndjson, for evaluation against the
// TLA+ oracle modules by TLC.
//
//	unit <family> <tier> <seed> <outdir> <shards>
package main

import (
	"bufio"
	"encoding/json"
	"fmt"
	"math/rand"
	"os"
	"path/filepath"
	"strconv"
)

type rec map[string]any

type sink struct {
	ws []*bufio.Writer
	fs []*os.File
	n  int
}

func newSink(dir string, shards int) *sink {
	s := &sink{}
	for i := 0; i < shards; i++ {
		f, err := os.Create(filepath.Join(dir, fmt.Sprintf("cases.%d.ndjson", i)))
		if err != nil {
			panic(err)
		}
		s.fs = append(s.fs, f)
		s.ws = append(s.ws, bufio.NewWriterSize(f, 1<<20))
	}
	return s
}

func (s *sink) put(r rec) {
	b, err := json.Marshal(r)
	if err != nil {
		panic(err)
	}
	w := s.ws[s.n%len(s.ws)]
	w.Write(b)
	w.WriteByte('\n')
	s.n++
}

func (s *sink) close() {
	for i := range s.ws {
		s.ws[i].Flush()
		s.fs[i].Close()
	}
}

func ints(b []byte) []int {
	a := make([]int, len(b))
	for i, v := range b {
		a[i] = int(v)
	}
	return a
}

func u32b(v uint32) []int {
	return []int{int(v >> 24), int(v >> 16 & 255), int(v >> 8 & 255), int(v & 255)}
}

func main() {
	if len(os.Args) < 6 {
		fmt.Fprintln(os.Stderr, "usage: unit <family> <tier> <seed> <outdir> <shards>")
		os.Exit(2)
	}
	family, tier := os.Args[1], os.Args[2]
	seed, _ := strconv.ParseInt(os.Args[3], 10, 64)
	shards, _ := strconv.Atoi(os.Args[5])
	out := newSink(os.Args[4], shards)
	defer out.close()
	rnd := rand.New(rand.NewSource(seed))
	thorough := tier == "thorough"
	switch family {
	case "attrs":
		genAttrs(out, rnd, thorough)
	case "prefix":
		genPrefix(out, rnd, thorough)
	case "update":
		genUpdate(out, rnd, thorough)
	case "errtree":
		genErrTree(out, rnd, thorough)
	case "codec":
		genCodec(out, rnd, thorough)
	case "openval":
		genOpenVal(out, rnd, thorough)
	case "openenc":
		genOpenEnc(out, rnd, thorough)
	case "deframe":
		genDeframe(out, rnd, thorough)
	case "big":
		genBig(out, rnd, thorough)
	case "registry":
		genRegistry(out, rnd, thorough)
	default:
		fmt.Fprintln(os.Stderr, "unknown family", family)
		os.Exit(2)
	}
	fmt.Println(out.n)
}
