package main

import "math/rand"

func genCodec(out *sink, rnd *rand.Rand, thorough bool)   {}
func genOpenVal(out *sink, rnd *rand.Rand, thorough bool) {}
func genOpenEnc(out *sink, rnd *rand.Rand, thorough bool) {}
func genDeframe(out *sink, rnd *rand.Rand, thorough bool) {}
func genBig(out *sink, rnd *rand.Rand, thorough bool)     {}
