package main

import (
	"math/rand"
	"net/netip"

	"github.com/jwhited/corebgp"
)

type pfx struct {
	id   []int
	bits int
	addr []int
}

func pfxRecs(ps []pfx) []rec {
	out := []rec{}
	for _, p := range ps {
		out = append(out, rec{"id": p.id, "len": p.bits, "addr": p.addr})
	}
	return out
}

func fromPrefixes(ps []netip.Prefix) []pfx {
	var out []pfx
	for _, p := range ps {
		out = append(out, pfx{id: []int{}, bits: p.Bits(), addr: ints(p.Addr().AsSlice())})
	}
	return out
}

func fromAddPath(ps []corebgp.AddPathPrefix) []pfx {
	var out []pfx
	for _, p := range ps {
		out = append(out, pfx{id: u32b(p.ID), bits: p.Prefix.Bits(), addr: ints(p.Prefix.Addr().AsSlice())})
	}
	return out
}

func runPrefix(entry string, b []byte) (r rec) {
	r = rec{"panic": false, "called": false, "err": dump(nil), "list": []rec{}}
	defer func() {
		if p := recover(); p != nil {
			r["panic"] = true
		}
	}()
	in := append([]byte{}, b...)
	var err error
	var got []pfx
	called := false
	plain := func(_ int, p []netip.Prefix) error { called = true; got = fromPrefixes(p); return nil }
	ap := func(_ int, p []corebgp.AddPathPrefix) error { called = true; got = fromAddPath(p); return nil }
	switch entry {
	case "nlri":
		err = corebgp.NewNLRIDecodeFn(plain)(0, in)
	case "nlriap":
		err = corebgp.NewNLRIAddPathDecodeFn(ap)(0, in)
	case "wd":
		err = corebgp.NewWithdrawnRoutesDecodeFn(plain)(0, in)
	case "wdap":
		err = corebgp.NewWithdrawnAddPathRoutesDecodeFn(ap)(0, in)
	case "mp6":
		var ps []netip.Prefix
		ps, err = corebgp.DecodeMPIPv6Prefixes(in)
		called = err == nil
		got = fromPrefixes(ps)
	case "mp6ap":
		var ps []corebgp.AddPathPrefix
		ps, err = corebgp.DecodeMPIPv6AddPathPrefixes(in)
		called = err == nil
		got = fromAddPath(ps)
	}
	r["called"] = called
	r["err"] = dump(err)
	r["list"] = pfxRecs(got)
	return r
}

func encPrefix(id int64, bits int, fill byte, v6 bool) []byte {
	var b []byte
	if id >= 0 {
		b = append(b, byte(id>>24), byte(id>>16), byte(id>>8), byte(id))
	}
	b = append(b, byte(bits))
	n := (bits + 7) / 8
	for i := 0; i < n; i++ {
		b = append(b, fill)
	}
	return b
}

func runMPReach(flags uint8, b []byte) (r rec) {
	r = rec{"panic": false, "called": false, "afi": 0, "safi": 0, "nh": []int{}, "nlri": []int{}, "err": dump(nil)}
	defer func() {
		if p := recover(); p != nil {
			r["panic"] = true
		}
	}()
	fn := corebgp.NewMPReachNLRIDecodeFn(func(_ int, afi uint16, safi uint8, nh, nlri []byte) error {
		r["called"] = true
		r["afi"], r["safi"], r["nh"], r["nlri"] = int(afi), int(safi), ints(nh), ints(nlri)
		return nil
	})
	r["err"] = dump(fn(0, corebgp.PathAttrFlags(flags), append([]byte{}, b...)))
	return r
}

func runMPUnreach(flags uint8, b []byte) (r rec) {
	r = rec{"panic": false, "called": false, "afi": 0, "safi": 0, "nh": []int{}, "nlri": []int{}, "err": dump(nil)}
	defer func() {
		if p := recover(); p != nil {
			r["panic"] = true
		}
	}()
	fn := corebgp.NewMPUnreachNLRIDecodeFn(func(_ int, afi uint16, safi uint8, wd []byte) error {
		r["called"] = true
		r["afi"], r["safi"], r["nlri"] = int(afi), int(safi), ints(wd)
		return nil
	})
	r["err"] = dump(fn(0, corebgp.PathAttrFlags(flags), append([]byte{}, b...)))
	return r
}

func runV6NH(b []byte) (r rec) {
	r = rec{"panic": false, "err": dump(nil), "list": [][]int{}}
	defer func() {
		if p := recover(); p != nil {
			r["panic"] = true
		}
	}()
	as, err := corebgp.DecodeMPReachIPv6NextHops(append([]byte{}, b...))
	r["err"] = dump(err)
	l := [][]int{}
	for _, a := range as {
		l = append(l, ints(a.AsSlice()))
	}
	r["list"] = l
	return r
}

func genPrefix(out *sink, rnd *rand.Rand, thorough bool) {
	entries := []string{"nlri", "nlriap", "wd", "wdap", "mp6", "mp6ap"}
	emit := func(e string, b []byte) {
		out.put(rec{"f": "prefix", "entry": e, "b": ints(b), "r": runPrefix(e, b)})
	}
	fills := []byte{0x00, 0xFF, 0xA5}
	ids := []int64{0, 1, 4294967295}
	for _, e := range entries {
		v6 := e == "mp6" || e == "mp6ap"
		ap := e == "nlriap" || e == "wdap" || e == "mp6ap"
		max := 32
		if v6 {
			max = 128
		}
		lens := []int{}
		for l := 0; l <= max; l++ {
			lens = append(lens, l)
		}
		for l := max + 1; l <= 255; l++ { // every illegal length octet
			if l <= max+2 || l >= 240 || l%16 == 1 || thorough {
				lens = append(lens, l)
			}
		}
		emit(e, nil)
		for _, l := range lens {
			for fi, fill := range fills {
				id := int64(-1)
				if ap {
					id = ids[fi%len(ids)]
				}
				one := encPrefix(id, l, fill, v6)
				emit(e, one)
				if fi == 0 || thorough {
					// every truncation point, and a +-1 corruption of the length octet
					for cut := 0; cut < len(one); cut++ {
						emit(e, one[:cut])
					}
					lo := 0
					if ap {
						lo = 4
					}
					for _, d := range []int{-1, 1} {
						c := append([]byte{}, one...)
						c[lo] = byte(int(c[lo]) + d)
						emit(e, c)
					}
				}
			}
		}
		// lists of 2..3 prefixes
		n := 150
		if thorough {
			n = 3000
		}
		for i := 0; i < n; i++ {
			var b []byte
			for k := 0; k < 2+rnd.Intn(2); k++ {
				id := int64(-1)
				if ap {
					id = ids[rnd.Intn(len(ids))]
				}
				l := lens[rnd.Intn(len(lens))]
				if rnd.Intn(4) > 0 {
					l = rnd.Intn(max + 1)
				}
				p := encPrefix(id, l, byte(rnd.Intn(256)), v6)
				b = append(b, p...)
			}
			emit(e, b)
			if len(b) > 0 {
				emit(e, b[:rnd.Intn(len(b))])
				c := append([]byte{}, b...)
				c[rnd.Intn(len(c))] ^= byte(1 << rnd.Intn(8))
				emit(e, c)
			}
		}
	}
	// MP_REACH: all next-hop length octets x attribute sizes; all flag octets
	for nh := 0; nh < 256; nh++ {
		for _, extra := range []int{-2, -1, 0, 1, 2, 3} { // octets after header relative to nhLen+1
			n := nh + 1 + extra
			if n < 0 {
				continue
			}
			b := []byte{0, 2, 1, byte(nh)}
			for i := 0; i < n; i++ {
				b = append(b, byte(i+1))
			}
			out.put(rec{"f": "mpreach", "flags": 0x80, "b": ints(b), "r": runMPReach(0x80, b)})
		}
	}
	for l := 0; l <= 7; l++ {
		b := counter(l)
		out.put(rec{"f": "mpreach", "flags": 0x90, "b": ints(b), "r": runMPReach(0x90, b)})
		out.put(rec{"f": "mpunreach", "flags": 0x80, "b": ints(b), "r": runMPUnreach(0x80, b)})
	}
	body := []byte{0, 2, 1, 16}
	body = append(body, counter(16)...)
	body = append(body, 0, 64, 0x20, 1, 0xd, 0xb8, 0, 0, 0, 0)
	for fl := 0; fl < 256; fl++ {
		out.put(rec{"f": "mpreach", "flags": fl, "b": ints(body), "r": runMPReach(uint8(fl), body)})
		out.put(rec{"f": "mpreach", "flags": fl, "b": []int{0, 2}, "r": runMPReach(uint8(fl), []byte{0, 2})})
		ub := []byte{0, 2, 1, 64, 0x20, 1, 0xd, 0xb8, 0, 0, 0, 0}
		out.put(rec{"f": "mpunreach", "flags": fl, "b": ints(ub), "r": runMPUnreach(uint8(fl), ub)})
		out.put(rec{"f": "mpunreach", "flags": fl, "b": []int{0}, "r": runMPUnreach(uint8(fl), []byte{0})})
	}
	for l := 0; l <= 50; l++ {
		for _, b := range [][]byte{counter(l), make([]byte, l), append(make([]byte, l/2), counter(l-l/2)...),
			append(counter(l/3), make([]byte, l-l/3)...)} {
			out.put(rec{"f": "v6nh", "b": ints(b), "r": runV6NH(b)})
		}
	}
}
