package main

import (
	"errors"
	"fmt"
	"math/rand"

	"github.com/jwhited/corebgp"
)

// tree descriptions (same shape as dump output) -> errors
func buildErr(d rec) error {
	if d == nil {
		return nil
	}
	nn := func() *corebgp.Notification {
		n := d["n"].(rec)
		if n["code"].(int) < 0 {
			return nil
		}
		return &corebgp.Notification{Code: uint8(n["code"].(int)), Subcode: uint8(n["sub"].(int)),
			Data: toB(n["data"].([]int))}
	}
	switch d["t"].(string) {
	case "nil":
		return nil
	case "notif":
		return nn()
	case "taw":
		return &corebgp.TreatAsWithdrawUpdateErr{Code: uint8(d["acode"].(int)), Notification: nn()}
	case "ad":
		return &corebgp.AttrDiscardUpdateErr{Code: uint8(d["acode"].(int)), Notification: nn()}
	case "ue":
		return &foreignUE{id: d["id"].(int), n: nn()}
	case "foreign":
		return &foreignErr{id: d["id"].(int)}
	case "join":
		var es []error
		for _, k := range d["kids"].([]rec) {
			es = append(es, buildErr(k))
		}
		return errors.Join(es...)
	case "wrap":
		inner := buildErr(d["kids"].([]rec)[0])
		if d["id"].(int)%2 == 0 {
			return &wrapErr{inner: inner}
		}
		return fmt.Errorf("ctx: %w", inner)
	}
	panic("bad tree")
}

func toB(a []int) []byte {
	b := make([]byte, len(a))
	for i, v := range a {
		b[i] = byte(v)
	}
	return b
}

func leaf(t string, id int, withN bool) rec {
	n := rec{"code": -1, "sub": 0, "data": []int{}}
	if withN || t == "notif" || t == "ue" {
		n = rec{"code": 3, "sub": id % 12, "data": []int{id}}
	}
	// descriptions are canonical: they equal dump(buildErr(description))
	switch t {
	case "nil":
		return rec{"t": t, "n": n, "acode": 0, "id": 0, "kids": []rec{}}
	case "notif":
		return rec{"t": t, "n": n, "acode": 0, "id": 0, "kids": []rec{}}
	case "taw", "ad":
		return rec{"t": t, "n": n, "acode": id % 256, "id": 0, "kids": []rec{}}
	}
	if t == "foreign" {
		n = rec{"code": -1, "sub": 0, "data": []int{}}
	}
	return rec{"t": t, "n": n, "acode": 0, "id": id, "kids": []rec{}}
}

func nilLeaf() rec { return leaf("nil", 0, false) }

// callState is the per-call context handed to the decoder as its T: ONE decoder
// instance is shared by all recorded calls of the process, as an application
// would reuse it, so state leaking from one message into the next is visible.
type callState struct {
	calls   []rec
	replies []rec
}

func (cs *callState) reply() error {
	k := len(cs.calls) - 1
	if k < len(cs.replies) {
		return buildErr(cs.replies[k])
	}
	return nil
}

var sharedDecoder = corebgp.NewUpdateDecoder[*callState](
	func(cs *callState, b []byte) error {
		cs.calls = append(cs.calls, rec{"k": "wr", "type": 0, "flags": 0, "b": ints(b)})
		return cs.reply()
	},
	func(cs *callState, code uint8, flags corebgp.PathAttrFlags, b []byte) error {
		cs.calls = append(cs.calls, rec{"k": "attr", "type": int(code), "flags": int(flags), "b": ints(b)})
		return cs.reply()
	},
	func(cs *callState, b []byte) error {
		cs.calls = append(cs.calls, rec{"k": "nlri", "type": 0, "flags": 0, "b": ints(b)})
		return cs.reply()
	})

// runUpdate decodes body with callbacks that record their arguments and
// answer from replies (position in call order; missing = nil).
func runUpdate(body []byte, replies []rec) (r rec) {
	cs := &callState{calls: []rec{}, replies: replies}
	r = rec{"panic": false, "calls": cs.calls, "err": dump(nil), "notif": notifRec(nil)}
	defer func() {
		if p := recover(); p != nil {
			r["panic"] = true
			r["calls"] = cs.calls
		}
	}()
	err := sharedDecoder.Decode(cs, append([]byte{}, body...))
	r["calls"] = cs.calls
	r["err"] = dump(err)
	r["notif"] = notifRec(corebgp.UpdateNotificationFromErr(err))
	return r
}

func attrBytes(flags, typ byte, val []byte, ext bool) []byte {
	if ext {
		flags |= 0x10
		return append([]byte{flags, typ, byte(len(val) >> 8), byte(len(val))}, val...)
	}
	flags &^= 0x10
	return append([]byte{flags, typ, byte(len(val))}, val...)
}

func buildUpdate(rnd *rand.Rand) []byte {
	// withdrawn
	var wd []byte
	for i := 0; i < rnd.Intn(3); i++ {
		wd = append(wd, encPrefix(-1, rnd.Intn(33), byte(rnd.Intn(256)), false)...)
	}
	wrl := len(wd)
	switch rnd.Intn(10) {
	case 0:
		wrl++
	case 1:
		if wrl > 0 {
			wrl--
		}
	case 2:
		wrl = 0xFFFF
	}
	// attributes
	types := []byte{1, 2, 3, 4, 14, 15, 99, 255, 5, 8}
	if rnd.Intn(3) == 0 {
		// type codes that differ only in one high bit (what a "seen" table indexed carelessly would confuse)
		base := []byte{0, 1, 2, 3, 14, 15}[rnd.Intn(6)]
		types = []byte{base, base ^ 32, base ^ 64, base ^ 128, base ^ 16, base ^ 8, 14, 15, 1, 2}
	}
	flagss := []byte{0x40, 0x80, 0xC0, 0x50, 0x90, 0xD0, 0x00, 0xFF}
	vlens := []int{0, 1, 4, 4, 6, 8, 255, 256, 300}
	var attrs []byte
	n := rnd.Intn(6)
	for i := 0; i < n; i++ {
		t := types[rnd.Intn(len(types))]
		if rnd.Intn(3) == 0 {
			t = byte(1 + rnd.Intn(2)) // make mandatory attributes likely
		}
		v := make([]byte, vlens[rnd.Intn(len(vlens))])
		rnd.Read(v)
		ext := len(v) > 255
		if rnd.Intn(6) == 0 {
			ext = !ext && len(v) <= 255 || ext // ext bit on short values; never off on long ones (would change the value)
		}
		attrs = append(attrs, attrBytes(flagss[rnd.Intn(len(flagss))], t, v, ext)...)
	}
	if len(attrs) > 0 && rnd.Intn(5) == 0 { // truncate the block at a random offset
		attrs = attrs[:rnd.Intn(len(attrs))]
	}
	pal := len(attrs)
	switch rnd.Intn(12) {
	case 0:
		pal++
	case 1:
		if pal > 0 {
			pal--
		}
	case 2:
		pal += 3
	case 3:
		if pal >= 3 {
			pal -= 3
		}
	case 4:
		pal = 0
	case 5:
		pal = 0xFFFF
	}
	var nlri []byte
	switch rnd.Intn(4) {
	case 1:
		for i := 0; i < 1+rnd.Intn(3); i++ {
			nlri = append(nlri, encPrefix(-1, rnd.Intn(33), byte(rnd.Intn(256)), false)...)
		}
	case 2:
		nlri = make([]byte, 1+rnd.Intn(6))
		rnd.Read(nlri)
	}
	b := []byte{byte(wrl >> 8), byte(wrl)}
	b = append(b, wd...)
	b = append(b, byte(pal>>8), byte(pal))
	b = append(b, attrs...)
	b = append(b, nlri...)
	return b
}

func randReply(rnd *rand.Rand, id int) rec {
	switch rnd.Intn(9) {
	case 0:
		return leaf("ad", id, rnd.Intn(2) == 0)
	case 1:
		return leaf("taw", id, rnd.Intn(2) == 0)
	case 2:
		return leaf("notif", id, true)
	case 3:
		return leaf("foreign", id, false)
	case 4:
		return leaf("ue", id, true)
	case 5:
		return rec{"t": "join", "n": rec{"code": -1, "sub": 0, "data": []int{}}, "acode": 0, "id": 0,
			"kids": []rec{leaf("ad", id, true), leaf([]string{"taw", "notif", "foreign"}[rnd.Intn(3)], id+100, true)}}
	case 6:
		return rec{"t": "wrap", "n": rec{"code": -1, "sub": 0, "data": []int{}}, "acode": 0, "id": id,
			"kids": []rec{leaf([]string{"taw", "notif", "ad"}[rnd.Intn(3)], id, true)}}
	}
	return nilLeaf()
}

func genUpdate(out *sink, rnd *rand.Rand, thorough bool) {
	emit := func(b []byte, replies []rec) {
		if replies == nil {
			replies = []rec{}
		}
		out.put(rec{"f": "update", "b": ints(b), "replies": replies, "r": runUpdate(b, replies)})
	}
	// (i) exhaustive short strings over a protocol-relevant alphabet
	sigma := []byte{0x00, 0x01, 0x02, 0x03, 0x04, 0x0E, 0x0F, 0x10, 0x40, 0x80, 0x90, 0xFF}
	maxLen := 4
	if thorough {
		maxLen = 6
	}
	for _, s := range shortStrings(sigma, maxLen) {
		emit(s, nil)
	}
	// structured: 4-byte header + every attribute block over a smaller alphabet
	small := []byte{0x00, 0x01, 0x02, 0x0E, 0x40, 0x90}
	blkLen := 5
	if thorough {
		blkLen = 6
	}
	for _, blk := range shortStrings(small, blkLen) {
		for _, tail := range [][]byte{nil, {8, 10}} {
			b := append([]byte{0, 0, 0, byte(len(blk))}, blk...)
			emit(append(b, tail...), nil)
		}
	}
	// (ii) builder, all-nil replies (C16) and reply scripts (C17)
	n := 4000
	if thorough {
		n = 150000
	}
	for i := 0; i < n; i++ {
		b := buildUpdate(rnd)
		emit(b, nil)
		var replies []rec
		nn := 0
		for k := 0; k < 8; k++ {
			if rnd.Intn(4) == 0 && nn < 2 {
				replies = append(replies, randReply(rnd, 20+k))
				nn++
			} else {
				replies = append(replies, nilLeaf())
			}
		}
		emit(b, replies)
		if rnd.Intn(4) == 0 {
			m := append([]byte{}, b...)
			if len(m) > 0 {
				m[rnd.Intn(len(m))] ^= byte(1 << rnd.Intn(8))
			}
			emit(m, nil)
		}
	}
	// well-formed announcements with / without mandatory attributes, duplicates in every position
	org := attrBytes(0x40, 1, []byte{0}, false)
	asp := attrBytes(0x40, 2, []byte{2, 1, 0, 0, 0, 1}, false)
	nh := attrBytes(0x40, 3, []byte{10, 0, 0, 1}, false)
	mpr := attrBytes(0x80, 14, append([]byte{0, 2, 1, 16}, append(counter(16), 0, 64, 1, 2, 3, 4, 5, 6, 7, 8)...), false)
	mpu := attrBytes(0x80, 15, []byte{0, 2, 1}, false)
	sets := [][][]byte{{}, {org}, {asp}, {org, asp}, {org, asp, nh}, {mpr}, {mpr, org}, {mpr, org, asp}, {mpu}, {mpu, mpu},
		{mpr, mpr}, {org, mpr, asp, mpr}, {org, org, asp}, {org, asp, org, asp, nh, nh}, {nh}, {asp, org, mpu, org}}
	for _, set := range sets {
		for _, nl := range [][]byte{nil, {24, 10, 0, 0}, {33}} {
			var blk []byte
			for _, a := range set {
				blk = append(blk, a...)
			}
			b := append([]byte{0, 0, byte(len(blk) >> 8), byte(len(blk))}, blk...)
			emit(append(b, nl...), nil)
			wb := append([]byte{0, 4, 24, 10, 1, 1, byte(len(blk) >> 8), byte(len(blk))}, blk...)
			emit(append(wb, nl...), nil)
		}
	}
	// a repeated attribute (plain and MP) whose header is complete but whose length runs past the block,
	// after a complete first occurrence; with and without NLRI, with and without the mandatory attributes
	for _, t := range []byte{1, 2, 3, 14, 15, 99} {
		for _, ext := range []bool{false, true} {
			for _, pre := range [][]byte{nil, append(append([]byte{}, org...), asp...)} {
				first := attrBytes(0x80, t, []byte{0, 2, 1}, false)
				second := attrBytes(0x80, t, []byte{9, 9, 9, 9, 9, 9}, ext)
				blk := append(append(append([]byte{}, pre...), first...), second[:len(second)-3]...) // value cut short
				for _, nl := range [][]byte{nil, {24, 10, 0, 0}} {
					b := append([]byte{0, 0, byte(len(blk) >> 8), byte(len(blk))}, blk...)
					emit(append(b, nl...), nil)
				}
			}
		}
	}
	// a message that aborts (repeated MP attribute) followed by ordinary ones: nothing may leak into the next call
	dupmp := append(append([]byte{}, mpu...), mpu...)
	for i := 0; i < 3; i++ {
		b := append([]byte{0, 0, 0, byte(len(dupmp))}, dupmp...)
		emit(b, nil)
		okb := append(append(append([]byte{}, org...), asp...), mpu...)
		emit(append(append([]byte{0, 0, 0, byte(len(okb))}, okb...), 24, 10, 0, 0), nil)
		emit(append(append([]byte{0, 0, 0, byte(len(okb))}, okb...), 24, 10, 0, 0), nil)
	}
	// random bodies up to 4077
	m := 300
	if thorough {
		m = 5000
	}
	for i := 0; i < m; i++ {
		b := make([]byte, rnd.Intn(4078))
		rnd.Read(b)
		if len(b) >= 4 && rnd.Intn(2) == 0 {
			b[0], b[1] = 0, byte(rnd.Intn(8))
		}
		emit(b, nil)
	}
}

func mkTree(rnd *rand.Rand, depth int, id *int) rec {
	none := rec{"code": -1, "sub": 0, "data": []int{}}
	*id++
	if depth == 0 || rnd.Intn(3) == 0 {
		switch rnd.Intn(8) {
		case 0:
			return leaf("notif", *id, true)
		case 1:
			return leaf("taw", *id, true)
		case 2:
			return leaf("taw", *id, false)
		case 3:
			return leaf("ad", *id, true)
		case 4:
			return leaf("ad", *id, false)
		case 5:
			return leaf("ue", *id, true)
		case 6:
			return leaf("foreign", *id, false)
		}
		return nilLeaf()
	}
	if rnd.Intn(3) == 0 {
		return rec{"t": "wrap", "n": none, "acode": 0, "id": *id, "kids": []rec{mkTree(rnd, depth-1, id)}}
	}
	kids := []rec{}
	for i := 0; i < 1+rnd.Intn(3); i++ {
		kids = append(kids, mkTree(rnd, depth-1, id))
	}
	return rec{"t": "join", "n": none, "acode": 0, "id": 0, "kids": kids}
}

func genErrTree(out *sink, rnd *rand.Rand, thorough bool) {
	n := 6000
	if thorough {
		n = 200000
	}
	put := func(t rec) {
		r := rec{"panic": false, "tree": dump(nil), "notif": notifRec(nil)}
		func() {
			defer func() {
				if p := recover(); p != nil {
					r["panic"] = true
				}
			}()
			err := buildErr(t)
			r["tree"] = dump(err)
			r["notif"] = notifRec(corebgp.UpdateNotificationFromErr(err))
		}()
		out.put(rec{"f": "errtree", "r": r})
	}
	put(nilLeaf())
	// deep trees, shaped as Decode builds them: Join(Join(Join(e1, e2), e3), ...), the earliest error deepest;
	// and long Unwrap chains.  The rule holds for all finite trees, whatever their depth.
	none := rec{"code": -1, "sub": 0, "data": []int{}}
	join := func(a, b rec) rec { return rec{"t": "join", "n": none, "acode": 0, "id": 0, "kids": []rec{a, b}} }
	for _, depth := range []int{8, 30, 31, 32, 33, 34, 48, 64} {
		for _, first := range []string{"taw", "notif", "ad", "ue"} {
			for _, rest := range []string{"ad", "taw", "foreign"} {
				t := leaf(first, 1, true)
				for k := 2; k <= depth; k++ {
					t = join(t, leaf(rest, k, rest != "foreign"))
				}
				put(t)
				// the most severe error last instead
				t2 := leaf(rest, 1, rest != "foreign")
				for k := 2; k < depth; k++ {
					t2 = join(t2, leaf(rest, k, rest != "foreign"))
				}
				put(join(t2, leaf(first, depth, true)))
			}
			w := leaf(first, 7, true)
			for k := 0; k < depth; k++ {
				w = rec{"t": "wrap", "n": none, "acode": 0, "id": 100 + k, "kids": []rec{w}}
			}
			put(w)
			put(join(leaf("ad", 3, true), w))
		}
	}
	for i := 0; i < n; i++ {
		id := 0
		put(mkTree(rnd, 1+rnd.Intn(3), &id))
	}
}
