module verif/harness

go 1.25

require github.com/jwhited/corebgp v0.0.0

require golang.org/x/sys v0.15.0 // indirect

replace github.com/jwhited/corebgp => /repo
