------------------------------ MODULE MC_Pair ------------------------------
(* Untimed exhaustive model: one peer, its PM and FSM pair, up to MaxConns
   connections (dial successes + inbound), up to MaxMsgs remote messages per
   connection, one stop (DeletePeer or Close) at any point.  Armed timers may
   fire at any moment.  Checks the safety properties of C01 C07 C09 C10 C12
   C13 at design level for every interleaving within the bounds.           *)
EXTENDS CoreBGP

CONSTANTS MaxConns, MaxMsgs, MCPassive, MaxDials,
          Alphabet   \* subset of {"openLo","openHi","openBad","ka","upd","cease","notif","fault"}

P == "p"
LocalID == <<10, 0, 0, 5>>
IdLo == <<10, 0, 0, 1>>
IdHi == <<10, 0, 0, 9>>

MCCfg == (P :> [localAS |-> <<0, 0, 0, 1>>, remoteAS |-> <<0, 0, 0, 2>>, localID |-> LocalID,
                hold |-> 90, idleHold |-> 1, connRetry |-> 1, passive |-> MCPassive,
                localAddr |-> "", remote |-> "r", caps |-> <<>>, openReply |-> NoReply,
                noHandler |-> FALSE, handlerReplies |-> <<>>, estWrites |-> <<>>,
                handlerWrites |-> <<>>, gates |-> <<>>])

ConnIds == {"c1", "c2", "c3", "c4"}
NextConn == CHOOSE c \in ConnIds : c \notin DOMAIN conn /\
              \A x \in ConnIds : x \notin DOMAIN conn => ~(\E i \in 1..4 : x = <<"c1","c2","c3","c4">>[i] /\
                 \E j \in 1..4 : c = <<"c1","c2","c3","c4">>[j] /\ i < j)

AbsOpen(ok, rid) == [k |-> "absopen", ok |-> ok, rid |-> rid, hold |-> 90]
MsgOf(a) ==
  CASE a = "openLo" -> AbsOpen(TRUE, IdLo)
    [] a = "openHi" -> AbsOpen(TRUE, IdHi)
    [] a = "openBad" -> AbsOpen(FALSE, IdLo)
    [] a = "ka" -> EvMsg(TypeKeepalive, <<>>)
    [] a = "upd" -> EvMsg(TypeUpdate, <<>>)
    [] a = "cease" -> EvMsg(TypeNotification, <<6, 0>>)
    [] a = "notif" -> EvMsg(TypeNotification, <<2, 2>>)
    [] a = "fault" -> EvFault([code |-> 1, sub |-> 1, data |-> <<>>])
RemoteMsgs == {MsgOf(a) : a \in Alphabet}

MCInit ==
  /\ cfg = MCCfg
  /\ srv = [InitSrv EXCEPT !.serving = TRUE, !.servePc = "running", !.serveCall = "serve",
                           !.accPc = "idle", !.reg = {P}]
  /\ calls = ("serve" :> [op |-> "serve", p |-> "", pc |-> "serving", w |-> 0, b |-> <<>>, r |-> ""])
  /\ pm = (P :> StartedPM(P))
  /\ fsm = (P :> StartedFsms(P))
  /\ conn = << >>
  /\ dial = (P :> NoDial)
  /\ now = 0
  /\ out = <<>>
  /\ gh = InitGh

NConns == Cardinality(DOMAIN conn)

Env ==
  \/ /\ NConns < MaxConns /\ EnvConnect(NextConn, "r", "l")
  \/ /\ NConns < MaxConns /\ dial[P].k <= MaxDials /\ EnvDialAccept(P, NextConn)
  \/ /\ dial[P].k <= MaxDials /\ EnvDialRefuse(P)
  \/ \E c \in DOMAIN conn : \E m \in RemoteMsgs :
       /\ conn[c].rx < MaxMsgs /\ ~conn[c].dead /\ ~conn[c].reof /\ conn[c].inbox = <<>>
       /\ EnvSend(c, <<m>>, <<>>, m.k = "fault")
  \/ \E c \in DOMAIN conn : ~conn[c].reof /\ conn[c].inbox = <<>> /\ EnvRClose(c)
  \/ /\ "stop" \notin DOMAIN calls /\ ~srv.closed /\ P \in srv.reg
     /\ \/ EnvCall("stop", "deletePeer", P, 0, <<>>)
        \/ EnvCall("stop", "close", "", 0, <<>>)

(* Partial-order reduction: micro-operations that touch only the FSM's own
   state (and its own connection) are independent of every other enabled
   action, so they are taken first.                                         *)
LocalOps == {"w", "wOpen", "wKa", "cb", "cleanup", "closeOnly", "goreq", "goerr", "exit",
             "dead", "select", "setNeg", "holdReset", "timersOff", "closeWriter",
             "cbWrite", "cbWriteRet", "armCr"}
HasLocal(d) == fsm[P][d].pc = "run" /\ fsm[P][d].todo # <<>> /\ Head(fsm[P][d].todo).op \in LocalOps

PmLocalOps == {"hst", "enOut", "damp", "done"}
PmHasLocal == pm[P].pc = "run" /\ pm[P].todo # <<>> /\ Head(pm[P].todo).op \in PmLocalOps

MCNext ==
  IF \E d \in Dirs : HasLocal(d)
    THEN FsmStep(P, CHOOSE d \in Dirs : HasLocal(d))
  ELSE IF PmHasLocal THEN PmStep(P)
  ELSE IF dial[P].st = "spawned" THEN DialBegin(P)
  ELSE Internal \/ Env

MCSpec == MCInit /\ [][MCNext]_vars

AllInv ==
  /\ GhostOK /\ AtMostOneEstablished /\ PmTable /\ StopComplete
  /\ HeldDownIsQuiet /\ PassiveNeverDials /\ LockSane

(* counters that only label events are hidden from the fingerprint *)
View == <<srv, calls, pm,
          [p \in Peers |-> [d \in Dirs |-> [fsm[p][d] EXCEPT !.sess = IF @ = 0 THEN 0 ELSE 1]]],
          conn, [p \in Peers |-> [dial[p] EXCEPT !.k = IF @ = 0 THEN 0 ELSE 1]],
          [gh EXCEPT !.nsess = [p \in Peers |-> 0], !.ncb = [p \in Peers |-> [n \in CbNames \cup PmGateNames |-> 0]]]>>
=============================================================================
