------------------------------ MODULE CoreBGP ------------------------------
(* Implementation-shaped specification of jwhited/corebgp: server, per-peer
   peer manager (PM), the outbound/inbound FSM pair, connections, dial
   goroutines, timers, the plugin callbacks and the remote speaker.

   One action = one step of one goroutine from a blocking point to the next,
   emitting at most ONE externally visible event (a conn.Write, a conn.Close,
   a plugin callback, a dial attempt, an API return), so that the global event
   log recorded from the real code is a linearization this specification can
   reproduce.  A rendezvous on an unbuffered channel is one joint action.

   The specification describes the behaviour the properties C01..C14, C20
   demand (RFC 4271 FSM, RFC 4271 6.8 collision rule, damping, admission,
   shutdown); where the pinned code knowingly deviates and the properties
   allow it, the deviation is modelled and named.                           *)
EXTENDS Integers, Sequences, FiniteSets, TLC, Open, Notif, DampFn

CONSTANTS
  Timed,        \* TRUE: timers carry deadlines against `now`; FALSE: an armed timer may fire at any moment
  RecordOut,    \* TRUE: keep the output event log `out` (trace validation); FALSE: drop it (model checking)
  KnownD14      \* TRUE: allow the known finding D14 (a damping error lost when the PM disables the reporting FSM)

Dirs == {"out", "in"}
Other(d) == IF d = "out" THEN "in" ELSE "out"
Rank(s) == CASE s = "disabled" -> 0 [] s = "idle" -> 1 [] s = "connect" -> 2
             [] s = "active" -> 3 [] s = "openSent" -> 4
             [] s = "openConfirm" -> 5 [] s = "established" -> 6

Off == -1
U == 3                         \* time units per millisecond
Sec(n) == n * 1000 * U
LongHold == Sec(240)           \* RFC 4271: 4 minutes in OpenSent
DampMin == Sec(60)
DampMax == Sec(300)
Amnesia == Sec(300)
Zero4 == <<0, 0, 0, 0>>

VARIABLES
  cfg,    \* [peer name -> configuration and plugin script]   (constant within a script)
  srv,    \* server record: registry, life cycle, lock, accept loop
  calls,  \* [call id -> API call in progress]
  pm,     \* [peer -> peer manager record]
  fsm,    \* [peer -> [Dirs -> FSM record]]
  conn,   \* [conn name -> connection record]
  dial,   \* [peer -> dial goroutine record]
  now,    \* virtual clock (units of 1/3 ms)
  out,    \* output events since the last observation
  gh      \* ghost state for the invariants

vars == <<cfg, srv, calls, pm, fsm, conn, dial, now, out, gh>>

Peers == DOMAIN cfg

(* Open.tla's view of a peer's configuration *)
OCfg(p) == [localAS |-> cfg[p].localAS, remoteAS |-> cfg[p].remoteAS,
            localID |-> cfg[p].localID, hold |-> cfg[p].hold]

---------------------------------------------------------------------------
(* Records *)

NoFsm == [pc |-> "none", todo |-> <<>>, from |-> "disabled", to |-> "disabled",
          cur |-> "disabled", closed |-> FALSE, conn |-> "", everDialed |-> FALSE,
          rid |-> Zero4, H |-> 0, idleDl |-> Off, crDl |-> Off, holdDl |-> Off,
          kaDl |-> Off, errDamp |-> FALSE, des |-> "disabled",
          sess |-> 0, nUpd |-> 0, wopen |-> FALSE,
          lostDamp |-> FALSE]  \* a damping error was pending when the FSM was disabled

Arm(d) == IF Timed THEN now + d ELSE 0
Due(dl) == dl # Off /\ dl <= now

NewFsm(c) == [NoFsm EXCEPT !.pc = "req", !.to = IF c # "" THEN "active" ELSE "idle",
                           !.conn = c, !.idleDl = Arm(0)]

NoPM == [pc |-> "off", todo |-> <<>>, st |-> [d \in Dirs |-> "disabled"],
         has |-> [d \in Dirs |-> FALSE], holdDown |-> FALSE, sd |-> 0,
         lastErr |-> Off, sdDl |-> Off, closing |-> FALSE]

NoDial == [st |-> "none", cancel |-> FALSE, k |-> 0, conn |-> ""]

NewConn(p, dir, src, dst) ==
  [p |-> p, dir |-> dir, src |-> src, dst |-> dst, inbox |-> <<>>, rbuf |-> <<>>,
   dead |-> FALSE, reof |-> FALSE, lclosed |-> FALSE, reset |-> FALSE,
   held |-> FALSE,      \* corebgp holds this connection (accepted / dialled)
   stalled |-> FALSE,   \* the remote has stopped reading and the send buffer is full: writes block
   openSeen |-> FALSE,  \* a valid OPEN was consumed on it
   ceaseDue |-> FALSE,  \* its FSM was approved into OpenSent or beyond
   rx |-> 0]            \* events the remote has queued on it

InitSrv == [serving |-> FALSE, closed |-> FALSE, done |-> FALSE, reg |-> {},
            lock |-> "", servePc |-> "none", serveCall |-> "", lisErr |-> FALSE,
            stopping |-> "", backlog |-> <<>>, accPc |-> "off", accConn |-> "",
            lisGated |-> FALSE]     \* the listener's Close blocks (application-controlled)

CbNames == {"GetCapabilities", "OnOpenMessage", "OnEstablished", "Update", "OnClose"}
(* points where the peer manager calls the application's Logger (a gate there holds the PM itself) *)
PmGateNames == {"dis-out", "dis-in", "apv-out", "apv-in", "err-out", "err-in"}
(* schedule point inside the FSM goroutine right after its k-th approved transition (hook verifFSMHook);
   numbered like the PM's apv log point of the same direction *)
EntName(d) == IF d = "out" THEN "ent-out" ELSE "ent-in"
PmGateName(kind, d) == CASE kind = "dis" -> (IF d = "out" THEN "dis-out" ELSE "dis-in")
                         [] kind = "apv" -> (IF d = "out" THEN "apv-out" ELSE "apv-in")
                         [] kind = "err" -> (IF d = "out" THEN "err-out" ELSE "err-in")

InitGh == [sess |-> [p \in Peers |-> "none"],    \* direction whose session callbacks are open
           nsess |-> [p \in Peers |-> 0],          \* OnEstablished count
           released |-> [p \in Peers |-> {}],      \* gates [n, k] the application has opened
           ncb |-> [p \in Peers |-> [n \in CbNames \cup PmGateNames |-> 0]],   \* invocations per callback / PM log point
           bad |-> {}]                             \* names of violated ghost checks

Init ==
  /\ srv = InitSrv
  /\ calls = << >>
  /\ pm = [p \in Peers |-> NoPM]
  /\ fsm = [p \in Peers |-> [d \in Dirs |-> NoFsm]]
  /\ conn = << >>
  /\ dial = [p \in Peers |-> NoDial]
  /\ now = 0
  /\ out = <<>>
  /\ gh = InitGh

---------------------------------------------------------------------------
(* Output events and messages *)

Ev(e, p, c, n, k, m, r) ==
  [e |-> e, p |-> p, c |-> c, n |-> n, k |-> k, m |-> m, r |-> r, t |-> now]

Emit(o, ev) == IF RecordOut THEN Append(o, ev) ELSE o

MKa == [k |-> "ka"]
MOpen(p) == [k |-> "open", p |-> p]
MNotif(code, sub, data) == [k |-> "notif", code |-> code, sub |-> sub, data |-> data]
MUpdate(body) == [k |-> "update", body |-> body]
MRefusal(p, body) == [k |-> "refusal", p |-> p, body |-> body]              \* any NOTIFICATION that Applies
MRefusalOrFsm(p, body, sub) == [k |-> "refusalOrFsm", p |-> p, body |-> body, sub |-> sub]
MCease == MNotif(6, 0, <<>>)
MHoldExpired == MNotif(4, 0, <<>>)
MFsmErr(sub, type) == MNotif(5, sub, <<type>>)

(* Inbox events: what the reader goroutine hands to the FSM, in order. *)
EvMsg(type, body) == [k |-> "msg", type |-> type, body |-> body]
EvFault(n) == [k |-> "fault", n |-> n]       \* header fault: n = NOTIFICATION to send
EvEOF == [k |-> "eof"]                       \* transport failure / orderly close

CanWrite(c) == ~conn[c].lclosed /\ ~conn[c].reset
(* corebgp sets no write deadline: a write on a stalled connection blocks until the remote reads again, or the
   connection is closed locally (by another goroutine) or reset *)
Writable(c) == c \notin DOMAIN conn \/ ~conn[c].stalled \/ ~CanWrite(c)

FsmSub(s) == CASE s = "openSent" -> 1 [] s = "openConfirm" -> 2 [] s = "established" -> 3

---------------------------------------------------------------------------
(* FSM micro-programs.  Between two blocking points an FSM goroutine runs a
   `todo` list of micro-operations, each with at most one visible event.    *)

OpW(m)          == [op |-> "w", m |-> m]
OpWOpen         == [op |-> "wOpen"]
OpWKa(fail)     == [op |-> "wKa", fail |-> fail]
OpCb(n, m)      == [op |-> "cb", n |-> n, m |-> m]
OpCleanup       == [op |-> "cleanup"]
OpCloseOnly     == [op |-> "closeOnly"]
OpGoReq(to)     == [op |-> "goreq", to |-> to]
OpGoErr(dmp, to) == [op |-> "goerr", damp |-> dmp, to |-> to]
OpExit          == [op |-> "exit"]
OpSwallow       == [op |-> "swallow"]
OpSwallow2      == [op |-> "swallow2"]
OpDead          == [op |-> "dead"]
OpSelect(s)     == [op |-> "select", s |-> s]
OpSetNeg(h, rid) == [op |-> "setNeg", h |-> h, rid |-> rid]
OpHoldReset     == [op |-> "holdReset"]
OpTimersOff     == [op |-> "timersOff"]
OpCloseWriter   == [op |-> "closeWriter"]
OpCbWrite(b)    == [op |-> "cbWrite", b |-> b]
OpCbWriteRet(r) == [op |-> "cbWriteRet", r |-> r]
OpArmCr         == [op |-> "armCr"]
OpGate(n)       == [op |-> "gate", n |-> n]     \* the plugin callback n has not returned yet

CbM(b, caps, rid) == [b |-> b, caps |-> caps, rid |-> rid]
NoCbM == CbM(<<>>, <<>>, Zero4)

NoReply == [code |-> -1, sub |-> 0, data |-> <<>>]

Teardown(s) ==
  IF s = "established"
    THEN <<OpCloseWriter, OpCleanup, OpTimersOff, OpCb("OnClose", NoCbM)>>
    ELSE <<OpCleanup, OpTimersOff>>

SendOpenProg == <<OpCb("GetCapabilities", NoCbM), OpWOpen>>

RECURSIVE CbWrites(_, _)
CbWrites(bs, k) == IF k > Len(bs) THEN <<>> ELSE <<OpCbWrite(bs[k]), OpCbWriteRet("nil")>> \o CbWrites(bs, k + 1)

(* program run by FSM (p, d) once the PM has approved its transition to s *)
EnterProg(p, d, s) ==
  CASE s = "disabled" -> <<OpExit>>
    [] s = "active" /\ fsm[p][d].conn # "" -> SendOpenProg
    [] s = "established" ->
         <<OpCb("OnEstablished", NoCbM)>> \o CbWrites(cfg[p].estWrites, 1) \o <<OpSelect(s)>>
    [] OTHER -> <<OpSelect(s)>>

HandlerReply(p, k) == IF k <= Len(cfg[p].handlerReplies) THEN cfg[p].handlerReplies[k] ELSE NoReply
HandlerWrites(p, k) == IF k <= Len(cfg[p].handlerWrites) THEN cfg[p].handlerWrites[k] ELSE <<>>

(* the view of a received OPEN the FSM reasons about *)
OpenViewOf(ev, p) ==
  IF ev.k = "absopen"
    THEN [sound |-> TRUE, mayAccept |-> ev.ok, mayRefuse |-> ~ev.ok, rid |-> ev.rid,
          hold |-> ev.hold, caps |-> <<>>, body |-> <<>>]
    ELSE LET b == ev.body IN
         [sound |-> StructurallySound(b),
          mayAccept |-> MayAccept(b, OCfg(p)), mayRefuse |-> MayRefuse(b, OCfg(p)),
          rid |-> IF HasFixed(b) THEN BGPId(b) ELSE Zero4,
          hold |-> IF HasFixed(b) THEN HoldTime(b) ELSE 0,
          caps |-> IF StructurallySound(b) THEN Carried(b) ELSE <<>>,
          body |-> b]

ErrEnd(s, dmp) == Teardown(s) \o <<OpGoErr(dmp, "idle")>>

(* the set of programs FSM (p, d) may run on consuming event ev in state s *)
RecvProgs(p, d, s, ev) ==
  LET f == fsm[p][d]
      fsmErr(type) == {<<OpW(MFsmErr(FsmSub(s), type))>> \o ErrEnd(s, TRUE)}
      transport ==
        {(IF s = "openSent" THEN <<OpArmCr>> ELSE <<>>) \o Teardown(s)
           \o <<OpGoErr(FALSE, IF s = "openSent" THEN "active" ELSE "idle")>>}
      openProgs ==
        LET v == OpenViewOf(ev, p)
            reply == cfg[p].openReply
            accept ==
              <<OpCb("OnOpenMessage", CbM(<<>>, v.caps, v.rid))>> \o
              (IF reply.code = -1
                 THEN <<OpWKa(ErrEnd(s, FALSE)), OpSetNeg(v.hold, v.rid), OpGoReq("openConfirm")>>
                 ELSE <<OpW(MNotif(reply.code, reply.sub, reply.data))>> \o ErrEnd(s, reply.code # Cease))
            refuse == <<OpW(MRefusal(p, v.body))>> \o ErrEnd(s, TRUE)
        IN IF s = "openSent"
             THEN (IF v.mayAccept THEN {accept} ELSE {}) \cup (IF v.mayRefuse THEN {refuse} ELSE {})
             ELSE {<<OpW(IF v.sound THEN MFsmErr(FsmSub(s), 1)
                                    ELSE MRefusalOrFsm(p, v.body, FsmSub(s)))>> \o ErrEnd(s, TRUE)}
      kaProgs ==
        CASE s = "openSent" -> fsmErr(4)
          [] s = "openConfirm" -> {<<OpHoldReset, OpGoReq("established")>>}
          [] s = "established" -> {<<OpHoldReset, OpSelect(s)>>}
      updProgs ==
        IF s # "established" THEN fsmErr(2)
        ELSE IF cfg[p].noHandler THEN {<<OpHoldReset, OpSelect(s)>>}
        ELSE LET k == f.nUpd + 1
                 reply == HandlerReply(p, k)
             IN {<<OpCb("Update", CbM(ev.body, <<>>, Zero4))>> \o CbWrites(HandlerWrites(p, k), 1) \o
                 (IF reply.code = -1 THEN <<OpHoldReset, OpSelect(s)>>
                  ELSE <<OpW(MNotif(reply.code, reply.sub, reply.data))>> \o ErrEnd(s, reply.code # Cease))}
      notifProgs ==
        LET n == NDecode(ev.body) IN
        IF ~n.ok THEN transport      \* deviation ShortNotificationIsTransportError
        ELSE {ErrEnd(s, Damps(n.code))}
  IN CASE ev.k = "eof" -> transport
       [] ev.k = "fault" -> {<<OpW(MNotif(ev.n.code, ev.n.sub, ev.n.data))>> \o ErrEnd(s, TRUE)}
       [] ev.k = "absopen" -> openProgs
       [] ev.k = "msg" /\ ev.type = TypeOpen -> openProgs
       [] ev.k = "msg" /\ ev.type = TypeKeepalive -> kaProgs
       [] ev.k = "msg" /\ ev.type = TypeUpdate -> updProgs
       [] ev.k = "msg" /\ ev.type = TypeNotification -> notifProgs

---------------------------------------------------------------------------
(* One micro-operation of FSM (p, d). *)

CancelDial(dl) ==
  CASE dl.st = "spawned" -> [dl EXCEPT !.cancel = TRUE]
    [] dl.st = "pending" -> [dl EXCEPT !.st = "fail"]
    [] OTHER -> dl

CloseConn(cn, c) == IF c = "" THEN cn ELSE [cn EXCEPT ![c].lclosed = TRUE]
NeedsCloseEv(c) == c # "" /\ ~conn[c].lclosed

GhCb(p, d, n) ==
  CASE n = "OnEstablished" ->
         [gh EXCEPT !.sess[p] = d, !.nsess[p] = @ + 1,
                    !.bad = IF gh.sess[p] # "none" THEN @ \cup {"twoEstablished"} ELSE @]
    [] n = "Update" ->
         [gh EXCEPT !.bad = IF gh.sess[p] # d THEN @ \cup {"handlerOutsideSession"} ELSE @]
    [] n = "OnClose" ->
         [gh EXCEPT !.sess[p] = "none",
                    !.bad = IF gh.sess[p] # d THEN @ \cup {"closeWithoutSession"} ELSE @]
    [] OTHER -> gh

(* The keepalive timer after a successful write of an UPDATE: it is restarted by the keepalive-manager
   goroutine, asynchronously.  If it had already expired (the FSM was busy in a callback), the FSM's select
   may still see the expiry before the restart takes effect: one extra KEEPALIVE is then sent.          *)
KaAfterWrite(f, ok) ==
  IF ~ok \/ f.H = 0 THEN {f.kaDl}
  ELSE IF Due(f.kaDl) THEN {f.kaDl, Arm(f.H \div 3)}
  ELSE {Arm(f.H \div 3)}

FsmStep(p, d) ==
  LET f == fsm[p][d]
      op == Head(f.todo)
      rest == Tail(f.todo)
      c == f.conn
      setF(nf) == fsm' = [fsm EXCEPT ![p][d] = nf]
      KaInt == f.H \div 3
  IN
  /\ f.pc = "run" /\ f.todo # <<>>
  /\ op.op \in {"w", "wKa", "cbWrite", "kaTimer"} => Writable(c)
  /\ op.op = "wOpen" => (~Representable(OCfg(p), cfg[p].caps) \/ Writable(c))
  /\ CASE op.op = "w" ->
            /\ setF([f EXCEPT !.todo = rest])
            /\ out' = Emit(out, Ev(IF CanWrite(c) THEN "w" ELSE "wfail", "", c, "", 0, op.m, ""))
            /\ UNCHANGED <<conn, dial, gh>>
       [] op.op = "wOpen" ->
            IF ~Representable(OCfg(p), cfg[p].caps)
              THEN /\ setF([f EXCEPT !.todo = <<OpCloseOnly, OpGoReq("idle")>>])
                   /\ UNCHANGED <<out, conn, dial, gh>>
            ELSE IF CanWrite(c)
              THEN /\ setF([f EXCEPT !.todo = <<OpGoReq("openSent")>>, !.holdDl = Arm(LongHold)])
                   /\ out' = Emit(out, Ev("w", "", c, "", 0, MOpen(p), ""))
                   /\ UNCHANGED <<conn, dial, gh>>
              ELSE /\ setF([f EXCEPT !.todo = <<OpCloseOnly, OpGoReq("idle")>>])
                   /\ out' = Emit(out, Ev("wfail", "", c, "", 0, MOpen(p), ""))
                   /\ UNCHANGED <<conn, dial, gh>>
       [] op.op = "wKa" ->
            IF CanWrite(c)
              THEN /\ setF([f EXCEPT !.todo = rest])
                   /\ out' = Emit(out, Ev("w", "", c, "", 0, MKa, ""))
                   /\ UNCHANGED <<conn, dial, gh>>
              ELSE /\ setF([f EXCEPT !.todo = op.fail])
                   /\ out' = Emit(out, Ev("wfail", "", c, "", 0, MKa, ""))
                   /\ UNCHANGED <<conn, dial, gh>>
       [] op.op = "cb" ->
            LET k == CASE op.n = "OnEstablished" -> gh.nsess[p] + 1
                       [] op.n = "OnClose" -> gh.nsess[p]
                       [] op.n = "Update" -> f.sess
                       [] OTHER -> 0
                \* a gated callback blocks (after having been entered) until the application releases it
                \* (gate [n, k]: the k-th invocation of callback n)
                g == [n |-> op.n, k |-> gh.ncb[p][op.n] + 1]
                gated == (\E i \in 1..Len(cfg[p].gates) : cfg[p].gates[i] = g) /\ g \notin gh.released[p]
                rest2 == IF gated THEN <<OpGate(g)>> \o rest ELSE rest
            IN
            /\ setF(CASE op.n = "OnEstablished" ->
                           [f EXCEPT !.todo = rest2, !.sess = k, !.nUpd = 0, !.wopen = TRUE]
                      [] op.n = "Update" -> [f EXCEPT !.todo = rest2, !.nUpd = @ + 1]
                      [] OTHER -> [f EXCEPT !.todo = rest2])
            /\ out' = Emit(out, Ev("cb", p, "", op.n, k, op.m, ""))
            /\ gh' = IF cfg[p].gates = <<>> THEN GhCb(p, d, op.n) ELSE [GhCb(p, d, op.n) EXCEPT !.ncb[p][op.n] = @ + 1]
            /\ conn' = IF op.n = "OnOpenMessage" THEN [conn EXCEPT ![c].openSeen = TRUE] ELSE conn
            /\ UNCHANGED dial
       [] op.op \in {"cleanup", "closeOnly"} ->
            /\ setF([f EXCEPT !.todo = rest, !.conn = IF op.op = "cleanup" THEN "" ELSE @])
            /\ out' = IF NeedsCloseEv(c) THEN Emit(out, Ev("lclose", "", c, "", 0, <<>>, "")) ELSE out
            /\ conn' = CloseConn(conn, c)
            /\ UNCHANGED <<dial, gh>>
       [] op.op = "goreq" ->
            /\ setF([f EXCEPT !.pc = "req", !.from = f.cur, !.to = op.to, !.todo = <<>>])
            /\ UNCHANGED <<out, conn, dial, gh>>
       [] op.op = "goerr" ->
            /\ setF([f EXCEPT !.pc = "err", !.errDamp = op.damp, !.des = op.to, !.todo = <<>>])
            /\ UNCHANGED <<out, conn, dial, gh>>
       [] op.op = "exit" ->
            /\ setF([f EXCEPT !.todo = <<OpSwallow, OpCleanup, OpDead>>])
            /\ UNCHANGED <<out, conn, dial, gh>>
       [] op.op = "swallow" ->
            IF ~f.everDialed \/ dial[p].st = "none"
              THEN /\ setF([f EXCEPT !.todo = rest])
                   /\ UNCHANGED <<out, conn, dial, gh>>
              ELSE /\ setF([f EXCEPT !.todo = <<OpSwallow2>> \o rest])
                   /\ dial' = [dial EXCEPT ![p] = CancelDial(@)]
                   /\ UNCHANGED <<out, conn, gh>>
       [] op.op = "swallow2" ->
            \* the dial goroutine hands over its result; a connection it carries
            \* must not be leaked (C10)
            /\ dial[p].st \in {"ok", "fail"}
            /\ setF([f EXCEPT !.todo = rest])
            /\ dial' = [dial EXCEPT ![p].st = "none", ![p].conn = ""]
            /\ IF dial[p].st = "ok"
                 THEN /\ out' = Emit(out, Ev("lclose", "", dial[p].conn, "", 0, <<>>, ""))
                      /\ conn' = CloseConn(conn, dial[p].conn)
                 ELSE UNCHANGED <<out, conn>>
            /\ UNCHANGED gh
       [] op.op = "dead" ->
            /\ setF([f EXCEPT !.pc = "dead", !.todo = <<>>, !.idleDl = Off, !.crDl = Off,
                              !.holdDl = Off, !.kaDl = Off])
            /\ UNCHANGED <<out, conn, dial, gh>>
       [] op.op = "select" ->
            /\ setF([f EXCEPT !.pc = "st", !.cur = op.s, !.todo = <<>>])
            /\ UNCHANGED <<out, conn, dial, gh>>
       [] op.op = "setNeg" ->
            LET local == cfg[p].hold
                h == Sec(IF local < op.h THEN local ELSE op.h)
            IN /\ setF([f EXCEPT !.todo = rest, !.H = h, !.rid = op.rid,
                                 !.holdDl = IF h = 0 THEN Off ELSE Arm(h),
                                 !.kaDl = IF h = 0 THEN Off ELSE Arm(h \div 3)])
               /\ UNCHANGED <<out, conn, dial, gh>>
       [] op.op = "holdReset" ->
            /\ setF([f EXCEPT !.todo = rest, !.holdDl = IF f.H = 0 THEN Off ELSE Arm(f.H)])
            /\ UNCHANGED <<out, conn, dial, gh>>
       [] op.op = "timersOff" ->
            /\ setF([f EXCEPT !.todo = rest, !.holdDl = Off, !.kaDl = Off])
            /\ UNCHANGED <<out, conn, dial, gh>>
       [] op.op = "closeWriter" ->
            /\ setF([f EXCEPT !.todo = rest, !.wopen = FALSE])
            /\ UNCHANGED <<out, conn, dial, gh>>
       [] op.op = "kaTimer" ->     \* the keepalive timer fired while the connection was stalled: the write ends now
            IF CanWrite(c)
              THEN /\ setF([f EXCEPT !.pc = "st", !.todo = <<>>, !.kaDl = Arm(KaInt)])
                   /\ out' = Emit(out, Ev("w", "", c, "", 0, MKa, ""))
                   /\ UNCHANGED <<conn, dial, gh>>
              ELSE /\ setF([f EXCEPT !.kaDl = Off, !.todo = ErrEnd(f.cur, FALSE)])
                   /\ out' = Emit(out, Ev("wfail", "", c, "", 0, MKa, ""))
                   /\ UNCHANGED <<conn, dial, gh>>
       [] op.op = "cbWrite" ->
            LET ok == CanWrite(c) IN
            /\ \E nk \in KaAfterWrite(f, ok) :
                 setF([f EXCEPT !.todo = <<OpCbWriteRet(IF ok THEN "nil" ELSE "err")>> \o Tail(rest), !.kaDl = nk])
            /\ out' = Emit(out, Ev(IF ok THEN "w" ELSE "wfail", "", c, "", 0, MUpdate(op.b), ""))
            /\ UNCHANGED <<conn, dial, gh>>
       [] op.op = "cbWriteRet" ->
            /\ setF([f EXCEPT !.todo = rest])
            /\ out' = Emit(out, Ev("ret", p, "", "writeCb", f.sess, <<>>, op.r))
            /\ UNCHANGED <<conn, dial, gh>>
       [] op.op = "armCr" ->
            /\ setF([f EXCEPT !.todo = rest, !.crDl = Arm(cfg[p].connRetry)])
            /\ UNCHANGED <<out, conn, dial, gh>>
       [] op.op = "gate" ->
            /\ op.n \in gh.released[p]
            /\ setF([f EXCEPT !.todo = rest])
            /\ out' = Emit(out, Ev("cbx", p, "", op.n.n, op.n.k, <<>>, ""))     \* the held callback returns
            /\ UNCHANGED <<conn, dial, gh>>
  /\ UNCHANGED <<cfg, srv, calls, pm, now>>

---------------------------------------------------------------------------
(* FSM: blocking points (fsm.run's selects and the state functions' selects) *)

Go(p, d, prog) == fsm' = [fsm EXCEPT ![p][d].pc = "run", ![p][d].todo = prog]
GoF(p, d, nf, prog) == fsm' = [fsm EXCEPT ![p][d] = [nf EXCEPT !.pc = "run", !.todo = prog]]

SpawnDial(dl) == [dl EXCEPT !.st = "spawned", !.cancel = FALSE, !.k = @ + 1, !.conn = ""]

(* fsm.run: disabled while offering a transition or awaiting its approval.
   A Cease goes out if a connection is up and the state being left is
   OpenSent or later (deviation CloseWithoutCeaseBeforeApproval: an OPEN
   written from Active whose OpenSent transition is not yet approved gets no
   Cease).                                                                  *)
FsmSeesCloseReq(p, d) ==
  LET f == fsm[p][d]
      due == f.to # "disabled" /\ f.conn # "" /\ Rank(f.from) > Rank("active")
      \* an OPEN is on the wire but OpenSent is not approved yet: C10 speaks of connections that
      \* WERE in OpenSent, so a Cease is allowed here but not required (the pinned code sends none)
      window == ~due /\ f.to = "openSent" /\ f.conn # ""
  IN
  /\ f.pc \in {"req", "await"} /\ f.closed
  /\ \/ /\ due \/ window
        /\ Go(p, d, <<OpW(MCease), OpExit>>)
     \/ /\ ~due
        /\ Go(p, d, <<OpExit>>)
  /\ UNCHANGED <<cfg, srv, calls, pm, conn, dial, now, out, gh>>

(* fsm.run: disabled while offering an error: the error is never reported. *)
FsmErrSeesClose(p, d) ==
  LET f == fsm[p][d] IN
  /\ f.pc = "err" /\ f.closed
  /\ GoF(p, d, [f EXCEPT !.lostDamp = f.errDamp], <<OpExit>>)
  /\ UNCHANGED <<cfg, srv, calls, pm, conn, dial, now, out, gh>>

InState(p, d, s) == fsm[p][d].pc = "st" /\ fsm[p][d].cur = s

IdleTimer(p, d) ==
  LET f == fsm[p][d] IN
  /\ InState(p, d, "idle") /\ Due(f.idleDl) /\ dial[p].st = "none"
  /\ fsm' = [fsm EXCEPT ![p][d] = [f EXCEPT !.pc = "req", !.from = "idle", !.to = "connect",
                                            !.crDl = Arm(cfg[p].connRetry),
                                            !.idleDl = Arm(cfg[p].idleHold),
                                            !.everDialed = TRUE]]
  /\ dial' = [dial EXCEPT ![p] = SpawnDial(@)]
  /\ UNCHANGED <<cfg, srv, calls, pm, conn, now, out, gh>>

PlainClose(p, d) ==      \* idle / connect / active: nothing to say to the remote
  /\ fsm[p][d].pc = "st" /\ fsm[p][d].cur \in {"idle", "connect", "connectCancel", "active"}
  /\ fsm[p][d].closed
  /\ Go(p, d, <<OpExit>>)
  /\ UNCHANGED <<cfg, srv, calls, pm, conn, dial, now, out, gh>>

TakeDialResult(p, d, f, again) ==
  \* consume the dial goroutine's result; `again`: restart the dial on failure
  /\ dial[p].st \in {"ok", "fail"}
  /\ IF dial[p].st = "ok"
       THEN /\ GoF(p, d, [f EXCEPT !.conn = dial[p].conn, !.crDl = Off, !.cur = "connect"], SendOpenProg)
            /\ dial' = [dial EXCEPT ![p].st = "none", ![p].conn = ""]
       ELSE IF again
         THEN /\ fsm' = [fsm EXCEPT ![p][d] = [f EXCEPT !.cur = "connect",
                                                        !.crDl = Arm(cfg[p].connRetry)]]
              /\ dial' = [dial EXCEPT ![p] = SpawnDial(@)]
         ELSE /\ fsm' = [fsm EXCEPT ![p][d] = [f EXCEPT !.pc = "req", !.from = "connect",
                                                        !.to = "idle", !.crDl = Off]]
              /\ dial' = [dial EXCEPT ![p].st = "none"]

ConnectDialResult(p, d) ==
  /\ InState(p, d, "connect")
  /\ TakeDialResult(p, d, fsm[p][d], FALSE)
  /\ UNCHANGED <<cfg, srv, calls, pm, conn, now, out, gh>>

ConnectRetry(p, d) ==    \* connect-retry timer: abandon the pending attempt
  /\ InState(p, d, "connect") /\ Due(fsm[p][d].crDl)
  /\ fsm' = [fsm EXCEPT ![p][d].cur = "connectCancel", ![p][d].crDl = Off]
  /\ dial' = [dial EXCEPT ![p] = CancelDial(@)]
  /\ UNCHANGED <<cfg, srv, calls, pm, conn, now, out, gh>>

ConnectCancelResult(p, d) ==
  /\ InState(p, d, "connectCancel")
  /\ TakeDialResult(p, d, fsm[p][d], TRUE)
  /\ UNCHANGED <<cfg, srv, calls, pm, conn, now, out, gh>>

ActiveRetry(p, d) ==
  LET f == fsm[p][d] IN
  /\ InState(p, d, "active") /\ Due(f.crDl) /\ dial[p].st = "none"
  /\ fsm' = [fsm EXCEPT ![p][d] = [f EXCEPT !.pc = "req", !.from = "active", !.to = "connect",
                                            !.crDl = Arm(cfg[p].connRetry), !.everDialed = TRUE]]
  /\ dial' = [dial EXCEPT ![p] = SpawnDial(@)]
  /\ UNCHANGED <<cfg, srv, calls, pm, conn, now, out, gh>>

Session == {"openSent", "openConfirm", "established"}

Recv(p, d) ==
  LET f == fsm[p][d]
      c == f.conn
  IN
  /\ f.pc = "st" /\ f.cur \in Session
  /\ conn[c].inbox # <<>>
  /\ \E prog \in RecvProgs(p, d, f.cur, Head(conn[c].inbox)) : Go(p, d, prog)
  /\ conn' = [conn EXCEPT ![c].inbox = Tail(@)]
  /\ UNCHANGED <<cfg, srv, calls, pm, dial, now, out, gh>>

HoldFires(p, d) ==
  LET f == fsm[p][d] IN
  /\ f.pc = "st" /\ f.cur \in Session /\ Due(f.holdDl)
  /\ GoF(p, d, [f EXCEPT !.holdDl = Off], <<OpW(MHoldExpired)>> \o ErrEnd(f.cur, TRUE))
  /\ UNCHANGED <<cfg, srv, calls, pm, conn, dial, now, out, gh>>

KaFires(p, d) ==
  LET f == fsm[p][d]
      c == f.conn
  IN
  /\ f.pc = "st" /\ f.cur \in {"openConfirm", "established"} /\ Due(f.kaDl)
  /\ IF ~Writable(c)        \* committed to the write, which blocks
       THEN /\ GoF(p, d, f, <<[op |-> "kaTimer"]>>)
            /\ UNCHANGED out
     ELSE IF CanWrite(c)
       THEN /\ fsm' = [fsm EXCEPT ![p][d].kaDl = Arm(f.H \div 3)]
            /\ out' = Emit(out, Ev("w", "", c, "", 0, MKa, ""))
       ELSE /\ GoF(p, d, [f EXCEPT !.kaDl = Off], ErrEnd(f.cur, FALSE))
            /\ out' = Emit(out, Ev("wfail", "", c, "", 0, MKa, ""))
  /\ UNCHANGED <<cfg, srv, calls, pm, conn, dial, now, gh>>

SessionClose(p, d) ==    \* OpenSent / OpenConfirm / Established: Cease, then tear down
  LET f == fsm[p][d] IN
  /\ f.pc = "st" /\ f.cur \in Session /\ f.closed
  /\ Go(p, d, <<OpW(MCease)>> \o Teardown(f.cur) \o <<OpExit>>)
  /\ UNCHANGED <<cfg, srv, calls, pm, conn, dial, now, out, gh>>

(* The dial goroutine reaches the dialer. *)
DialBegin(p) ==
  /\ dial[p].st = "spawned"
  /\ dial' = [dial EXCEPT ![p].st = IF dial[p].cancel THEN "fail" ELSE "pending"]
  /\ out' = Emit(out, Ev("dial", p, "", "", dial[p].k, <<>>, ""))
  /\ UNCHANGED <<cfg, srv, calls, pm, fsm, conn, now, gh>>

FsmNext(p, d) ==
  \/ FsmStep(p, d) \/ FsmSeesCloseReq(p, d) \/ FsmErrSeesClose(p, d)
  \/ IdleTimer(p, d) \/ PlainClose(p, d) \/ ConnectDialResult(p, d) \/ ConnectRetry(p, d)
  \/ ConnectCancelResult(p, d) \/ ActiveRetry(p, d)
  \/ Recv(p, d) \/ HoldFires(p, d) \/ KaFires(p, d) \/ SessionClose(p, d)

---------------------------------------------------------------------------
(* Peer manager *)

PDis(d)      == [op |-> "dis", d |-> d]
PDisW(d)     == [op |-> "disw", d |-> d]
PApv(d, t)   == [op |-> "apv", d |-> d, t |-> t]
PEnOut       == [op |-> "enOut"]
PCol(d, t)   == [op |-> "col", d |-> d, t |-> t]
PHst(d, t)   == [op |-> "hst", d |-> d, t |-> t]
PDamp        == [op |-> "damp"]
PCloseConn(c) == [op |-> "closeConn", c |-> c]
PDone        == [op |-> "done"]
PGate(g)     == [op |-> "pgate", g |-> g]      \* the PM is inside the application's Logger
PDisGo(d)    == [op |-> "disgo", d |-> d]

(* does the PM stop at this log point?  (gate [n, k]: the k-th time it logs n) *)
PmGateHere(p, name) ==
  LET g == [n |-> name, k |-> gh.ncb[p][name] + 1] IN
  IF (\E i \in 1..Len(cfg[p].gates) : cfg[p].gates[i] = g) /\ g \notin gh.released[p] THEN <<PGate(g)>> ELSE <<>>
GhLog(p, name) == IF cfg[p].gates = <<>> THEN gh ELSE [gh EXCEPT !.ncb[p][name] = @ + 1]   \* counted only when gates are in use

(* RFC 4271 6.8 / RFC 6286: is the local speaker dominant w.r.t. the
   identifier received on the connection of FSM (p, d)?                     *)
Dominant(p, d) ==
  LET rid == fsm[p][d].rid IN
  \/ Less4(rid, cfg[p].localID)
  \/ rid = cfg[p].localID /\ Less4(cfg[p].remoteAS, cfg[p].localAS)

(* the connection to keep is the one initiated by the dominant speaker *)
Keep(p, d) == Dominant(p, d) = (d = "out")

Decide(p, d, t) ==
  CASE t.to = "established" -> <<PDis(Other(d)), PApv(d, t)>>
    [] d = "in" /\ Rank(t.to) < Rank(t.from) -> <<PDis("in"), PEnOut>>
    [] t.to = "openConfirm" /\ pm[p].st[Other(d)] = "established" -> <<PDis(d)>>
    [] t.to = "openConfirm" /\ pm[p].st[Other(d)] = "openConfirm" ->
         IF Keep(p, d) THEN <<PCol(d, t)>> ELSE <<PDis(d)>>
    [] OTHER -> <<PApv(d, t)>>

PmSet(p, todo) == pm' = [pm EXCEPT ![p].todo = todo, ![p].pc = IF todo = <<>> THEN "sel" ELSE "run"]

StartedPM(p) == [NoPM EXCEPT !.pc = "sel", !.has = [d \in Dirs |-> d = "out" /\ ~cfg[p].passive]]
StartedFsms(p) == [d \in Dirs |-> IF d = "out" /\ ~cfg[p].passive THEN NewFsm("") ELSE NoFsm]

PmSeesClose(p) ==
  /\ pm[p].pc = "sel" /\ pm[p].closing
  /\ PmSet(p, <<PDis("out"), PDis("in"), PDone>>)
  /\ UNCHANGED <<cfg, srv, calls, fsm, conn, dial, now, out, gh>>

PmSdFires(p) ==      \* startup-delay timer: hold-down over, re-enable the outbound FSM
  /\ pm[p].pc = "sel" /\ Due(pm[p].sdDl)
  /\ LET mk == ~cfg[p].passive /\ ~pm[p].has["out"] IN
     /\ pm' = [pm EXCEPT ![p].sdDl = Off, ![p].holdDown = FALSE,
                         ![p].has["out"] = @ \/ mk]
     /\ fsm' = IF mk THEN [fsm EXCEPT ![p]["out"] = NewFsm("")] ELSE fsm
  /\ UNCHANGED <<cfg, srv, calls, conn, dial, now, out, gh>>

PmSelectError(p, d) ==
  LET f == fsm[p][d] IN
  /\ pm[p].pc = "sel" /\ f.pc = "err"
  /\ fsm' = [fsm EXCEPT ![p][d] = [f EXCEPT !.pc = "req", !.from = f.cur, !.to = f.des,
                                            !.errDamp = FALSE]]
  /\ PmSet(p, PmGateHere(p, PmGateName("err", d)) \o (IF f.errDamp THEN <<PDis("in"), PDis("out"), PDamp>> ELSE <<>>))
  /\ gh' = GhLog(p, PmGateName("err", d))
  /\ UNCHANGED <<cfg, srv, calls, conn, dial, now, out>>

PmSelectTransition(p, d) ==
  LET f == fsm[p][d] IN
  /\ pm[p].pc = "sel" /\ f.pc = "req"
  /\ fsm' = [fsm EXCEPT ![p][d].pc = "await"]
  /\ PmSet(p, <<PHst(d, [from |-> f.from, to |-> f.to])>>)
  /\ UNCHANGED <<cfg, srv, calls, conn, dial, now, out, gh>>

(* the accept goroutine, holding the server lock, hands an inbound connection over *)
PmSelectInConn(p) ==
  LET c == srv.accConn IN
  /\ pm[p].pc = "sel" /\ srv.accPc = "offer" /\ conn[c].p = p
  /\ srv' = [srv EXCEPT !.accPc = "idle", !.accConn = "", !.lock = ""]
  /\ IF pm[p].holdDown \/ pm[p].has["in"] \/ pm[p].st["out"] = "established"
       THEN /\ PmSet(p, <<PCloseConn(c)>>)
            /\ UNCHANGED fsm
       ELSE /\ pm' = [pm EXCEPT ![p].has["in"] = TRUE]
            /\ fsm' = [fsm EXCEPT ![p]["in"] = NewFsm(c)]
  /\ UNCHANGED <<cfg, calls, conn, dial, now, out, gh>>

(* the ladder itself is DampFn!NextDelay; Damp.tla proves its invariants for unbounded time (Apalache) *)
UpdateDelay(sd, lastErr) == NextDelay(sd, lastErr, now, Off, DampMin, DampMax, Amnesia)

PmStep(p) ==
  LET m == pm[p]
      op == Head(m.todo)
      rest == Tail(m.todo)
  IN
  /\ m.pc = "run" /\ m.todo # <<>>
  /\ CASE op.op = "dis" ->
            \* disableFSM: nothing to do without an FSM; otherwise log the transition (the Logger may hold
            \* the PM here), then close the FSM's closeCh and wait
            IF ~m.has[op.d]
              THEN /\ PmSet(p, rest) /\ UNCHANGED <<fsm, conn, out, gh>>
              ELSE /\ PmSet(p, PmGateHere(p, PmGateName("dis", op.d)) \o <<PDisGo(op.d)>> \o rest)
                   /\ gh' = GhLog(p, PmGateName("dis", op.d))
                   /\ UNCHANGED <<fsm, conn, out>>
       [] op.op = "disgo" ->
            /\ PmSet(p, <<PDisW(op.d)>> \o rest)
            /\ fsm' = [fsm EXCEPT ![p][op.d].closed = TRUE]
            /\ UNCHANGED <<conn, out, gh>>
       [] op.op = "pgate" ->
            /\ op.g \in gh.released[p]
            /\ PmSet(p, rest) /\ UNCHANGED <<fsm, conn, out, gh>>
       [] op.op = "disw" ->
            \* disableFSM returns once the FSM goroutine has finished.  If the FSM was stopped while it was
            \* offering a damping error (it never got to report it), the PM collects the error: it abandons
            \* what it was doing and damps the peer (C12).  With KnownD14 the error may instead be lost, as in
            \* the code before the repair.
            /\ fsm[p][op.d].pc = "dead"
            /\ fsm' = [fsm EXCEPT ![p][op.d] = NoFsm]
            /\ LET lost == fsm[p][op.d].lostDamp /\ ~m.closing
                           /\ ~(\E i \in 1..Len(rest) : rest[i].op = "damp")
                   base == [m EXCEPT !.has[op.d] = FALSE, !.st[op.d] = "disabled"]
                   strict == PmGateHere(p, PmGateName("err", op.d)) \o <<PDis("in"), PDis("out"), PDamp>>
               IN \/ /\ lost
                     /\ pm' = [pm EXCEPT ![p] = [base EXCEPT !.todo = strict, !.pc = "run"]]
                     /\ gh' = GhLog(p, PmGateName("err", op.d))
                  \/ /\ ~lost \/ KnownD14
                     /\ pm' = [pm EXCEPT ![p] = [base EXCEPT !.todo = rest,
                                                  !.pc = IF rest = <<>> THEN "sel" ELSE "run"]]
                     /\ UNCHANGED gh
            /\ UNCHANGED <<conn, out>>
       [] op.op = "apv" ->
            \/ /\ m.closing                     \* sendTransitionToFSM gives up: peer is stopping
               /\ PmSet(p, rest) /\ UNCHANGED <<fsm, conn, out, gh>>
            \/ /\ fsm[p][op.d].pc = "await"
               \* the transition is handed over, then logged (the Logger may hold the PM), then recorded
               /\ LET todo2 == PmGateHere(p, PmGateName("apv", op.d)) \o rest IN
                  pm' = [pm EXCEPT ![p].todo = todo2, ![p].pc = IF todo2 = <<>> THEN "sel" ELSE "run",
                                   ![p].st[op.d] = op.t.to]
               /\ gh' = GhLog(p, PmGateName("apv", op.d))
               /\ LET eg == [n |-> EntName(op.d), k |-> gh.ncb[p][PmGateName("apv", op.d)] + 1]
                      held == (\E i \in 1..Len(cfg[p].gates) : cfg[p].gates[i] = eg) /\ eg \notin gh.released[p]
                  IN fsm' = [fsm EXCEPT ![p][op.d].pc = "run", ![p][op.d].cur = op.t.to,
                                        ![p][op.d].todo = (IF held THEN <<OpGate(eg)>> ELSE <<>>) \o EnterProg(p, op.d, op.t.to)]
               /\ conn' = IF op.t.to \in Session /\ fsm[p][op.d].conn # ""
                            THEN [conn EXCEPT ![fsm[p][op.d].conn].ceaseDue = TRUE] ELSE conn
               /\ UNCHANGED out
       [] op.op = "enOut" ->
            LET mk == ~cfg[p].passive /\ ~m.has["out"] IN
            /\ pm' = [pm EXCEPT ![p].todo = rest, ![p].pc = IF rest = <<>> THEN "sel" ELSE "run",
                                ![p].has["out"] = @ \/ mk]
            /\ fsm' = IF mk THEN [fsm EXCEPT ![p]["out"] = NewFsm("")] ELSE fsm
            /\ UNCHANGED <<conn, out, gh>>
       [] op.op = "hst" ->
            /\ PmSet(p, Decide(p, op.d, op.t) \o rest) /\ UNCHANGED <<fsm, conn, out, gh>>
       [] op.op = "col" ->
            \* the three-way select of the collision branch
            LET o == Other(op.d) IN
            \/ /\ m.closing
               /\ PmSet(p, rest) /\ UNCHANGED <<fsm, conn, out, gh>>
            \/ /\ PmSet(p, <<PDis(o), PApv(op.d, op.t)>> \o rest)   \* kill the other connection
               /\ UNCHANGED <<fsm, conn, out, gh>>
            \/ /\ fsm[p][o].pc = "req"                                \* the other moved first
               /\ fsm' = [fsm EXCEPT ![p][o].pc = "await"]
               /\ LET ot == [from |-> fsm[p][o].from, to |-> fsm[p][o].to] IN
                  IF ot.to = "established"
                    THEN PmSet(p, <<PDis(op.d), PHst(o, ot)>> \o rest)
                    ELSE PmSet(p, <<PApv(op.d, op.t), PHst(o, ot)>> \o rest)
               /\ UNCHANGED <<conn, out, gh>>
       [] op.op = "damp" ->
            LET nd == UpdateDelay(m.sd, m.lastErr) IN
            /\ pm' = [pm EXCEPT ![p].todo = rest, ![p].pc = IF rest = <<>> THEN "sel" ELSE "run",
                                ![p].sd = nd, ![p].lastErr = IF Timed THEN now ELSE Off,
                                ![p].sdDl = Arm(nd), ![p].holdDown = TRUE]
            /\ UNCHANGED <<fsm, conn, out, gh>>
       [] op.op = "closeConn" ->
            /\ PmSet(p, rest)
            /\ out' = IF NeedsCloseEv(op.c) THEN Emit(out, Ev("lclose", "", op.c, "", 0, <<>>, "")) ELSE out
            /\ conn' = CloseConn(conn, op.c)
            /\ UNCHANGED <<fsm, gh>>
       [] op.op = "done" ->
            /\ pm' = [pm EXCEPT ![p].pc = "done", ![p].todo = <<>>, ![p].sdDl = Off]
            /\ UNCHANGED <<fsm, conn, out, gh>>
  /\ UNCHANGED <<cfg, srv, calls, dial, now>>

PmNext(p) ==
  \/ PmSeesClose(p) \/ PmSdFires(p) \/ PmStep(p) \/ PmSelectInConn(p)
  \/ \E d \in Dirs : PmSelectError(p, d) \/ PmSelectTransition(p, d)

---------------------------------------------------------------------------
(* Server: registry, Serve / Close life cycle, accept loop, API calls *)

Without(f, k) == [x \in DOMAIN f \ {k} |-> f[x]]
LockFree == srv.lock = ""
Ret(o, p, n, k, r) == Emit(o, Ev("ret", p, "", n, k, <<>>, r))

(* the registered peer a connection's source address belongs to ("" = none) *)
PeerBySrc(c) ==
  IF \E p \in srv.reg : cfg[p].remote = conn[c].src
    THEN CHOOSE p \in srv.reg : cfg[p].remote = conn[c].src ELSE ""

DstOK(p, c) == cfg[p].localAddr = "" \/ cfg[p].localAddr = conn[c].dst

ResetPeer(p) ==
  /\ pm' = [pm EXCEPT ![p] = NoPM]
  /\ fsm' = [fsm EXCEPT ![p] = [d \in Dirs |-> NoFsm]]

(* An API call computes its result under the server lock (one step) and
   returns to its caller in a later step: other goroutines may log events in
   between.                                                                 *)
Done(id, r) == calls' = [calls EXCEPT ![id].pc = "ret", ![id].r = r]

CallRet(id) ==
  LET cl == calls[id] IN
  /\ cl.pc = "ret" /\ cl.op # "write"
  /\ out' = Ret(out, cl.p, cl.op, 0, cl.r)
  /\ calls' = Without(calls, id)
  /\ UNCHANGED <<cfg, srv, pm, fsm, conn, dial, now, gh>>

AddPeer(id) ==
  LET cl == calls[id]
      p == cl.p
  IN
  /\ cl.op = "addPeer" /\ cl.pc = "start" /\ LockFree
  /\ IF p \in srv.reg
       THEN /\ Done(id, "ErrPeerAlreadyExists")
            /\ UNCHANGED <<srv, pm, fsm>>
       ELSE /\ Done(id, "nil")
            /\ srv' = [srv EXCEPT !.reg = @ \cup {p}]
            /\ IF srv.serving
                 THEN /\ pm' = [pm EXCEPT ![p] = StartedPM(p)]
                      /\ fsm' = [fsm EXCEPT ![p] = StartedFsms(p)]
                 ELSE UNCHANGED <<pm, fsm>>
  /\ UNCHANGED <<cfg, conn, dial, now, out, gh>>

DeletePeerBegin(id) ==
  LET cl == calls[id]
      p == cl.p
  IN
  /\ cl.op = "deletePeer" /\ cl.pc = "start" /\ LockFree
  /\ IF p \notin srv.reg
       THEN /\ Done(id, "ErrPeerNotExist")
            /\ UNCHANGED <<srv, pm, fsm>>
       ELSE IF srv.serving
         THEN /\ srv' = [srv EXCEPT !.lock = id]
              /\ pm' = [pm EXCEPT ![p].closing = TRUE]
              /\ calls' = [calls EXCEPT ![id].pc = "wait"]
              /\ UNCHANGED fsm
         ELSE /\ srv' = [srv EXCEPT !.reg = @ \ {p}]
              /\ ResetPeer(p)
              /\ Done(id, "nil")
  /\ UNCHANGED <<cfg, conn, dial, now, out, gh>>

DeletePeerEnd(id) ==
  LET cl == calls[id]
      p == cl.p
  IN
  /\ cl.op = "deletePeer" /\ cl.pc = "wait" /\ pm[p].pc = "done"
  /\ srv' = [srv EXCEPT !.reg = @ \ {p}, !.lock = ""]
  /\ ResetPeer(p)
  /\ Done(id, "nil")
  /\ UNCHANGED <<cfg, conn, dial, now, out, gh>>

GetPeer(id) ==
  LET cl == calls[id] IN
  /\ cl.op = "getPeer" /\ cl.pc = "start" /\ LockFree
  /\ Done(id, IF cl.p \in srv.reg THEN "nil" ELSE "ErrPeerNotExist")
  /\ UNCHANGED <<cfg, srv, pm, fsm, conn, dial, now, out, gh>>

ListPeers(id) ==
  /\ calls[id].op = "listPeers" /\ calls[id].pc = "start" /\ LockFree
  /\ Done(id, srv.reg)
  /\ UNCHANGED <<cfg, srv, pm, fsm, conn, dial, now, out, gh>>

CloseBegin(id) ==
  /\ calls[id].op = "close" /\ calls[id].pc = "start" /\ LockFree
  /\ srv' = [srv EXCEPT !.closed = TRUE]
  /\ IF srv.serving THEN calls' = [calls EXCEPT ![id].pc = "wait"] ELSE Done(id, "nil")
  /\ UNCHANGED <<cfg, pm, fsm, conn, dial, now, out, gh>>

CloseEnd(id) ==
  /\ calls[id].op = "close" /\ calls[id].pc = "wait" /\ srv.done
  /\ Done(id, "nil")
  /\ UNCHANGED <<cfg, srv, pm, fsm, conn, dial, now, out, gh>>

ServeBegin(id) ==
  /\ calls[id].op = "serve" /\ calls[id].pc = "start" /\ LockFree
  /\ IF srv.done \/ srv.closed
       THEN /\ Done(id, "ErrServerClosed")
            /\ UNCHANGED <<srv, pm, fsm>>
     ELSE IF srv.serving                      \* a Serve call is running: refused, nothing is started twice
       THEN /\ Done(id, "err")
            /\ UNCHANGED <<srv, pm, fsm>>
       ELSE /\ srv' = [srv EXCEPT !.serving = TRUE, !.servePc = "running", !.serveCall = id,
                                  !.accPc = "idle"]
            /\ pm' = [p \in Peers |-> IF p \in srv.reg THEN StartedPM(p) ELSE pm[p]]
            /\ fsm' = [p \in Peers |-> IF p \in srv.reg THEN StartedFsms(p) ELSE fsm[p]]
            /\ calls' = [calls EXCEPT ![id].pc = "serving"]
  /\ UNCHANGED <<cfg, conn, dial, now, out, gh>>

ServeSeesClose ==
  /\ srv.servePc = "running" /\ srv.closed
  /\ srv' = [srv EXCEPT !.servePc = "closingLis"]
  /\ UNCHANGED <<cfg, calls, pm, fsm, conn, dial, now, out, gh>>

ServeSeesLisErr ==
  /\ srv.servePc = "running" /\ srv.accPc = "failed"
  /\ srv' = [srv EXCEPT !.servePc = "closingLis", !.lisErr = TRUE, !.accPc = "off"]
  /\ UNCHANGED <<cfg, calls, pm, fsm, conn, dial, now, out, gh>>

ServeLisClosed ==      \* closeListeners: the listeners are closed and the accept loop has finished
  /\ srv.servePc = "closingLis" /\ srv.accPc \in {"idle", "off", "failed"} /\ ~srv.lisGated
  /\ srv' = [srv EXCEPT !.servePc = "stopLock", !.accPc = "off"]
  /\ UNCHANGED <<cfg, calls, pm, fsm, conn, dial, now, out, gh>>

ServeStopLock ==
  /\ srv.servePc = "stopLock" /\ LockFree
  /\ srv' = [srv EXCEPT !.servePc = "stopping", !.lock = "serve"]
  /\ UNCHANGED <<cfg, calls, pm, fsm, conn, dial, now, out, gh>>

ServeStopBegin(p) ==   \* peers are stopped one after the other, in map order
  /\ srv.servePc = "stopping" /\ srv.stopping = "" /\ p \in srv.reg
  /\ pm[p].pc \notin {"done", "off"} /\ ~pm[p].closing
  /\ srv' = [srv EXCEPT !.stopping = p]
  /\ pm' = [pm EXCEPT ![p].closing = TRUE]
  /\ UNCHANGED <<cfg, calls, fsm, conn, dial, now, out, gh>>

ServeStopEnd ==
  /\ srv.servePc = "stopping" /\ srv.stopping # "" /\ pm[srv.stopping].pc = "done"
  /\ srv' = [srv EXCEPT !.stopping = ""]
  /\ UNCHANGED <<cfg, calls, pm, fsm, conn, dial, now, out, gh>>

ServeDone ==           \* Serve's deferred function: all peers stopped, doneServingCh closed
  /\ srv.servePc = "stopping" /\ srv.stopping = ""
  /\ \A p \in srv.reg : pm[p].pc \in {"done", "off"}
  /\ srv' = [srv EXCEPT !.servePc = "returning", !.serving = FALSE, !.done = TRUE, !.lock = ""]
  /\ UNCHANGED <<cfg, calls, pm, fsm, conn, dial, now, out, gh>>

ServeRet ==            \* Serve returns to its caller (concurrently with Close returning)
  /\ srv.servePc = "returning"
  /\ srv' = [srv EXCEPT !.servePc = "ret"]
  /\ out' = Ret(out, "", "serve", 0, IF srv.lisErr THEN "listener" ELSE "ErrServerClosed")
  /\ calls' = Without(calls, srv.serveCall)
  /\ UNCHANGED <<cfg, pm, fsm, conn, dial, now, gh>>

AcceptTake ==
  /\ srv.accPc = "idle" /\ srv.backlog # <<>>
  /\ srv.servePc = "running" \/ (srv.servePc = "closingLis" /\ srv.lisGated)   \* still listening
  /\ LET c == Head(srv.backlog) IN
     /\ srv' = [srv EXCEPT !.accPc = "lock", !.accConn = c, !.backlog = Tail(@)]
     /\ conn' = [conn EXCEPT ![c].held = TRUE]
     /\ out' = Emit(out, Ev("acc", "", c, "", 0, <<>>, ""))
  /\ UNCHANGED <<cfg, calls, pm, fsm, dial, now, gh>>

(* handleInboundConn: admission by source and destination address (C13) *)
AcceptLock ==
  LET c == srv.accConn
      p == PeerBySrc(c)
  IN
  /\ srv.accPc = "lock" /\ LockFree
  /\ IF p = "" \/ ~DstOK(p, c)
       THEN /\ srv' = [srv EXCEPT !.accPc = "idle", !.accConn = ""]
            /\ out' = Emit(out, Ev("lclose", "", c, "", 0, <<>>, ""))
            /\ conn' = CloseConn(conn, c)
       ELSE /\ srv' = [srv EXCEPT !.accPc = "offer", !.lock = "acc"]
            /\ conn' = [conn EXCEPT ![c].p = p]
            /\ UNCHANGED out
  /\ UNCHANGED <<cfg, calls, pm, fsm, dial, now, gh>>

(* WriteUpdate from a goroutine of the application *)
WriterFsm(p, w) == {d \in Dirs : fsm[p][d].sess = w /\ fsm[p][d].wopen}

(* WriteUpdate: the closeCh poll, then conn.Write on the writer's own connection (which blocks while the
   connection is stalled), then the keepalive-timer restart unless the session has ended meanwhile *)
WriteCall(id) ==
  LET cl == calls[id]
      ds == WriterFsm(cl.p, cl.w)
  IN
  /\ cl.op = "write" /\ cl.pc = "start"
  /\ IF ds = {}
       THEN /\ calls' = Without(calls, id)
            /\ out' = Ret(out, cl.p, "write", cl.w, "err")
       ELSE /\ calls' = [calls EXCEPT ![id].pc = "writing", ![id].r = fsm[cl.p][CHOOSE x \in ds : TRUE].conn]
            /\ UNCHANGED out
  /\ UNCHANGED <<cfg, srv, pm, fsm, conn, dial, now, gh>>

WriteDo(id) ==
  LET cl == calls[id]
      c == cl.r
      ok == CanWrite(c)
      ds == WriterFsm(cl.p, cl.w)
  IN
  /\ cl.op = "write" /\ cl.pc = "writing"
  /\ Writable(c)
  /\ calls' = [calls EXCEPT ![id].pc = "ret", ![id].r = IF ok THEN "nil" ELSE "err"]
  /\ out' = Emit(out, Ev(IF ok THEN "w" ELSE "wfail", "", c, "", 0, MUpdate(cl.b), ""))
  /\ IF ds = {} THEN UNCHANGED fsm
     ELSE LET d == CHOOSE x \in ds : TRUE IN
          \E nk \in KaAfterWrite(fsm[cl.p][d], ok) : fsm' = [fsm EXCEPT ![cl.p][d].kaDl = nk]
  /\ UNCHANGED <<cfg, srv, pm, conn, dial, now, gh>>

WriteRet(id) ==
  LET cl == calls[id] IN
  /\ cl.op = "write" /\ cl.pc = "ret"
  /\ calls' = Without(calls, id)
  /\ out' = Ret(out, cl.p, "write", cl.w, cl.r)
  /\ UNCHANGED <<cfg, srv, pm, fsm, conn, dial, now, gh>>

CallNext(id) ==
  \/ AddPeer(id) \/ DeletePeerBegin(id) \/ DeletePeerEnd(id) \/ GetPeer(id) \/ ListPeers(id)
  \/ CloseBegin(id) \/ CloseEnd(id) \/ ServeBegin(id) \/ WriteCall(id) \/ WriteDo(id) \/ WriteRet(id) \/ CallRet(id)

SrvNext ==
  \/ ServeSeesClose \/ ServeSeesLisErr \/ ServeLisClosed \/ ServeStopLock \/ ServeStopEnd \/ ServeDone \/ ServeRet
  \/ AcceptTake \/ AcceptLock
  \/ \E p \in Peers : ServeStopBegin(p)

(* Every step corebgp can take on its own (including expiry of due timers). *)
Internal ==
  \/ SrvNext
  \/ \E id \in DOMAIN calls : CallNext(id)
  \/ \E p \in Peers : PmNext(p) \/ DialBegin(p) \/ \E d \in Dirs : FsmNext(p, d)

Quiescent == ~ENABLED Internal

---------------------------------------------------------------------------
(* Environment: the remote speaker, the network, the application *)

NewCall(id, op, p, w, b) == calls' = calls @@ (id :> [op |-> op, p |-> p, pc |-> "start", w |-> w, b |-> b, r |-> ""])

EnvCall(id, op, p, w, b) ==
  /\ id \notin DOMAIN calls
  /\ NewCall(id, op, p, w, b)
  /\ UNCHANGED <<cfg, srv, pm, fsm, conn, dial, now, out, gh>>

EnvConnect(c, src, dst) ==
  /\ c \notin DOMAIN conn
  /\ conn' = conn @@ (c :> NewConn("", "in", src, dst))
  /\ srv' = [srv EXCEPT !.backlog = Append(@, c)]
  /\ UNCHANGED <<cfg, calls, pm, fsm, dial, now, out, gh>>

EnvDialAccept(p, c) ==
  /\ dial[p].st = "pending" /\ c \notin DOMAIN conn
  /\ dial' = [dial EXCEPT ![p].st = "ok", ![p].conn = c]
  /\ conn' = conn @@ (c :> [NewConn(p, "out", "", cfg[p].remote) EXCEPT !.held = TRUE])
  /\ UNCHANGED <<cfg, srv, calls, pm, fsm, now, out, gh>>

EnvDialRefuse(p) ==
  /\ dial[p].st = "pending"
  /\ dial' = [dial EXCEPT ![p].st = "fail"]
  /\ UNCHANGED <<cfg, srv, calls, pm, fsm, conn, now, out, gh>>

(* the remote writes: evs = events the receiver will extract, rest = trailing partial message *)
EnvSend(c, evs, rest, dead) ==
  /\ c \in DOMAIN conn
  /\ IF conn[c].dead \/ conn[c].reof \/ conn[c].reset THEN UNCHANGED conn
     ELSE conn' = [conn EXCEPT ![c].inbox = @ \o evs, ![c].rbuf = rest, ![c].dead = dead,
                               ![c].rx = @ + Len(evs)]
  /\ UNCHANGED <<cfg, srv, calls, pm, fsm, dial, now, out, gh>>

EnvRClose(c) ==
  /\ c \in DOMAIN conn
  /\ IF conn[c].reof \/ conn[c].reset THEN UNCHANGED conn
     ELSE conn' = [conn EXCEPT ![c].reof = TRUE,
                               ![c].inbox = IF conn[c].dead THEN @ ELSE Append(@, EvEOF)]
  /\ UNCHANGED <<cfg, srv, calls, pm, fsm, dial, now, out, gh>>

EnvStall(c, on) ==
  /\ c \in DOMAIN conn
  /\ conn' = [conn EXCEPT ![c].stalled = on]
  /\ UNCHANGED <<cfg, srv, calls, pm, fsm, dial, now, out, gh>>

EnvReset(c) ==
  /\ c \in DOMAIN conn
  /\ conn' = [conn EXCEPT ![c].reset = TRUE, ![c].inbox = <<EvEOF>>, ![c].dead = FALSE]
  /\ UNCHANGED <<cfg, srv, calls, pm, fsm, dial, now, out, gh>>

EnvRelease(p, n) ==      \* the application lets a held plugin callback return
  /\ gh' = [gh EXCEPT !.released[p] = @ \cup {n}]
  /\ UNCHANGED <<cfg, srv, calls, pm, fsm, conn, dial, now, out>>

EnvLisGate(g) ==
  /\ srv' = [srv EXCEPT !.lisGated = g]
  /\ UNCHANGED <<cfg, calls, pm, fsm, conn, dial, now, out, gh>>

EnvLisFail ==
  /\ srv.accPc = "idle" /\ srv.servePc = "running"
  /\ srv' = [srv EXCEPT !.accPc = "failed"]
  /\ UNCHANGED <<cfg, calls, pm, fsm, conn, dial, now, out, gh>>

(* all armed deadlines (a timer nobody listens to is included: harmless) *)
Deadlines ==
  UNION {{pm[p].sdDl} \cup UNION {{fsm[p][d].idleDl, fsm[p][d].crDl, fsm[p][d].holdDl, fsm[p][d].kaDl}
                                    : d \in Dirs} : p \in Peers} \ {Off}

(* time passes while everything is blocked: to the target or the next deadline *)
TimeStep(target) ==
  /\ Timed /\ Quiescent /\ now < target
  /\ LET next == {t \in Deadlines : t > now /\ t < target} IN
     now' = IF next = {} THEN target ELSE CHOOSE t \in next : \A u \in next : t <= u
  /\ UNCHANGED <<cfg, srv, calls, pm, fsm, conn, dial, out, gh>>

---------------------------------------------------------------------------
(* Properties (state invariants; the configurations say which are checked) *)

(* C01: callback grammar ghost: OnEstablished never while another session of
   the peer is open, handler / OnClose only by the FSM owning the session.  *)
GhostOK == gh.bad = {}

(* C01: at most one FSM per peer has an open update writer / open session *)
AtMostOneEstablished ==
  \A p \in Peers : ~(fsm[p]["out"].wopen /\ fsm[p]["in"].wopen)

(* the PM's table: an Established FSM has no sibling *)
PmTable ==
  \A p \in Peers : \A d \in Dirs :
    pm[p].st[d] = "established" => ~pm[p].has[Other(d)]

(* C10: when the PM has finished, nothing of the peer is left *)
StopComplete ==
  \A p \in Peers : pm[p].pc = "done" =>
    /\ \A d \in Dirs : fsm[p][d].pc = "none"
    /\ gh.sess[p] = "none"
    /\ dial[p].st = "none"
    /\ \A c \in DOMAIN conn : conn[c].p = p /\ conn[c].held => conn[c].lclosed

(* C12: while held down there is no FSM, hence no dial and no session *)
HeldDownIsQuiet ==
  \A p \in Peers : pm[p].pc = "sel" /\ pm[p].holdDown =>
    \A d \in Dirs : ~pm[p].has[d]

(* a passive peer never dials (C11) *)
PassiveNeverDials == \A p \in Peers : cfg[p].passive => dial[p].k = 0

(* the server lock is held only by a live holder *)
LockSane ==
  srv.lock \in {"", "acc", "serve"} \cup DOMAIN calls
=============================================================================
