------------------------------- MODULE Prefix -------------------------------
(* Prefix lists (RFC 4271 4.3, RFC 4760, RFC 7911 add-path) and the
   MP_REACH_NLRI / MP_UNREACH_NLRI attribute layout (RFC 4760 section 3, 4),
   as functions of byte strings.  Written from the RFCs and property C19.   *)
EXTENDS Integers, Sequences

Zeros(n) == [k \in 1..n |-> 0]

(* DecodePrefixes(b, v6, ap): [ok, list]; an entry is [id, len, addr] with id
   the 4 path-identifier octets (<<>> without add-path) and addr the address
   octets as encoded, zero-padded to 4 / 16.  Fails iff a length octet exceeds
   32 / 128 or the field ends inside an entry.                              *)
RECURSIVE PfxFrom(_, _, _, _, _)
PfxFrom(b, i, v6, ap, acc) ==
  LET max == IF v6 THEN 128 ELSE 32
      full == IF v6 THEN 16 ELSE 4
      hdr == IF ap THEN 5 ELSE 1
  IN
  IF i > Len(b) THEN [ok |-> TRUE, list |-> acc]
  ELSE IF i + hdr - 1 > Len(b) THEN [ok |-> FALSE, list |-> <<>>]
  ELSE LET id == IF ap THEN SubSeq(b, i, i + 3) ELSE <<>>
           L == b[i + hdr - 1]
           n == (L + 7) \div 8
           s == i + hdr
       IN IF L > max \/ s + n - 1 > Len(b) THEN [ok |-> FALSE, list |-> <<>>]
          ELSE PfxFrom(b, s + n, v6, ap,
                 Append(acc, [id |-> id, len |-> L, addr |-> SubSeq(b, s, s + n - 1) \o Zeros(full - n)]))

DecodePrefixes(b, v6, ap) == PfxFrom(b, 1, v6, ap, <<>>)

(* MP_REACH_NLRI value: AFI(2) SAFI(1) NHLen(1) NextHop(NHLen) Reserved(1) NLRI *)
MPReachFits(v) == Len(v) >= 5 /\ Len(v) - 4 >= v[4] + 1
MPReach(v) == [afi |-> v[1] * 256 + v[2], safi |-> v[3],
               nh |-> SubSeq(v, 5, 4 + v[4]), nlri |-> SubSeq(v, 6 + v[4], Len(v))]

(* MP_UNREACH_NLRI value: AFI(2) SAFI(1) Withdrawn *)
MPUnreachFits(v) == Len(v) >= 3
MPUnreach(v) == [afi |-> v[1] * 256 + v[2], safi |-> v[3], wd |-> SubSeq(v, 4, Len(v))]

(* MP attributes are optional non-transitive *)
MPFlagsOK(f) == (f \div 128) % 2 = 1 /\ (f \div 64) % 2 = 0

V6NextHopsOK(nh) == Len(nh) \in {16, 32}
V6NextHops(nh) == [k \in 1..(Len(nh) \div 16) |-> SubSeq(nh, 16 * (k - 1) + 1, 16 * k)]
=============================================================================
