------------------------------- MODULE Wire -------------------------------
(* BGP message framing, RFC 4271 section 4.1 / 6.1, as a function of byte
   strings.  Written from the RFC text; used by CoreBGP.tla to turn the raw
   bytes a remote speaker sends into protocol events, and stand-alone as the
   oracle for the receive-side header checks (C08) and the framing of
   everything corebgp writes (C04).                                          *)
EXTENDS Integers, Sequences

Byte == 0..255
IsBytes(s) == \A i \in 1..Len(s) : s[i] \in Byte

Marker == [i \in 1..16 |-> 255]
HeaderLen == 19
MaxMsgLen == 4096

U16(hi, lo) == hi * 256 + lo
U16Bytes(n) == << (n \div 256) % 256, n % 256 >>
U32(a, b, c, d) == ((a * 256 + b) * 256 + c) * 256 + d
U32Bytes(n) == << (n \div 16777216) % 256, (n \div 65536) % 256, (n \div 256) % 256, n % 256 >>

TypeOpen == 1
TypeUpdate == 2
TypeNotification == 3
TypeKeepalive == 4
KnownType(t) == t \in 1..4

(* A complete message with a correct header. *)
Frame(type, body) == Marker \o U16Bytes(Len(body) + HeaderLen) \o <<type>> \o body

(* Deframe(s): what a receiver that delimits messages solely by the header
   length field extracts from the byte stream s.
     msgs  : the complete, well-formed messages before any fault, in order
     fault : "none" | "notsync" | "badlen" | "badtype"  -- first header fault
     ftype : the offending type octet for "badtype"
     rest  : the unconsumed tail (an incomplete message) when fault = "none"
   Check order: a header is examined once all 19 octets are there: marker,
   then length; the type is examined once the whole message is there.      *)
RECURSIVE DeframeFrom(_, _, _)
DeframeFrom(s, i, acc) ==
  LET n == Len(s) - i + 1 IN
  IF n < HeaderLen
    THEN [msgs |-> acc, fault |-> "none", ftype |-> 0, rest |-> SubSeq(s, i, Len(s))]
  ELSE IF \E j \in 0..15 : s[i + j] # 255
    THEN [msgs |-> acc, fault |-> "notsync", ftype |-> 0, rest |-> <<>>]
  ELSE LET len == U16(s[i + 16], s[i + 17]) IN
    IF len < HeaderLen \/ len > MaxMsgLen
      THEN [msgs |-> acc, fault |-> "badlen", ftype |-> 0, rest |-> <<>>]
    ELSE IF n < len
      THEN [msgs |-> acc, fault |-> "none", ftype |-> 0, rest |-> SubSeq(s, i, Len(s))]
    ELSE IF ~KnownType(s[i + 18])
      THEN [msgs |-> acc, fault |-> "badtype", ftype |-> s[i + 18], rest |-> <<>>]
    ELSE DeframeFrom(s, i + len,
           Append(acc, [type |-> s[i + 18], body |-> SubSeq(s, i + HeaderLen, i + len - 1)]))

Deframe(s) == DeframeFrom(s, 1, <<>>)

(* The NOTIFICATION (code, subcode, data) a header fault calls for. *)
FaultNotif(d) ==
  CASE d.fault = "notsync" -> [code |-> 1, sub |-> 1, data |-> <<>>]
    [] d.fault = "badlen"  -> [code |-> 1, sub |-> 2, data |-> <<>>]
    [] d.fault = "badtype" -> [code |-> 1, sub |-> 3, data |-> <<d.ftype>>]

(* Strict parse of an outbound stream: TRUE iff s is a concatenation of
   complete well-formed messages (C04). *)
WellFormedStream(s) ==
  LET d == Deframe(s) IN d.fault = "none" /\ d.rest = <<>>

Concat(ss) ==
  LET RECURSIVE C(_)
      C(k) == IF k > Len(ss) THEN <<>> ELSE ss[k] \o C(k + 1)
  IN C(1)
=============================================================================
