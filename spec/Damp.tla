-------------------------------- MODULE Damp --------------------------------
(* Unbounded-time proof obligations for the hold-down ladder (C12), discharged
   by Apalache as an inductive invariant:
     apalache-mc check --init=IndInit --inv=IndInv --length=1 Damp.tla    (step)
     apalache-mc check --init=Init   --inv=IndInv --length=0 Damp.tla     (base)
   Time is an unbounded integer in units of 1/3 ms, the constants are the real
   ones (60 s, 300 s, 300 s).  NextDelay is the operator CoreBGP.tla uses.     *)
EXTENDS Integers, DampFn

U == 3
Min == 60 * 1000 * U
Max == 300 * 1000 * U
Amn == 300 * 1000 * U
Off == -1

VARIABLES
  \* @type: Int;
  sd,        \* hold-down computed at the last protocol error (0: none yet)
  \* @type: Int;
  lastErr,   \* time of the last protocol error (Off: none yet)
  \* @type: Int;
  prevSd,    \* history: sd before the last protocol error
  \* @type: Int;
  gap,       \* history: time between the last two protocol errors (Off: fewer than two)
  \* @type: Int;
  now

Init == sd = 0 /\ lastErr = Off /\ prevSd = 0 /\ gap = Off /\ now = 0

Tick == /\ \E d \in Int : d > 0 /\ now' = now + d
        /\ UNCHANGED <<sd, lastErr, prevSd, gap>>

Error == /\ sd' = NextDelay(sd, lastErr, now, Off, Min, Max, Amn)
         /\ prevSd' = sd
         /\ gap' = IF lastErr = Off THEN Off ELSE now - lastErr
         /\ lastErr' = now
         /\ UNCHANGED now

Next == Tick \/ Error

Ladder == {Min, 2 * Min, 4 * Min, Max}

(* the property, as a statement about the last step of the ladder *)
Rule ==
  /\ sd \in Ladder \cup {0}
  /\ (sd = 0) <=> (lastErr = Off)
  /\ lastErr # Off =>
       /\ (gap = Off => sd = Min)                                  \* 60 s at first
       /\ (gap # Off /\ gap >= Amn => sd = Min)                    \* back to 60 s once 300 s pass without one
       /\ (gap # Off /\ gap < Amn =>                               \* doubling, up to 300 s
             sd = IF 2 * prevSd < Max THEN 2 * prevSd ELSE Max)

IndInv ==
  /\ now >= 0 /\ lastErr >= Off /\ lastErr <= now
  /\ gap >= Off
  /\ prevSd \in Ladder \cup {0}
  /\ (gap # Off => prevSd \in Ladder)
  /\ (gap = Off /\ lastErr # Off => prevSd = 0)
  /\ Rule

(* Apalache needs every variable assigned in an initial predicate *)
IndInit ==
  /\ now \in Int /\ lastErr \in Int /\ sd \in Int /\ prevSd \in Int /\ gap \in Int
  /\ IndInv
=============================================================================
