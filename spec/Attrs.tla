------------------------------- MODULE Attrs -------------------------------
(* Typed path attributes: flags, well-formedness, decoded value, RFC 7606
   approach and RFC 4271 fallback subcode.  One row per attribute, from
   RFC 4271 section 5, RFC 7606 section 7, RFC 1997, RFC 4456, RFC 8092 and
   RFC 6793 (4-octet AS numbers).  Written from the RFCs and property C18.   *)
EXTENDS Integers, Sequences, FiniteSets

CONSTANT KnownD10   \* TRUE: model the known finding D10 (ATOMIC_AGGREGATE checked as optional)

Bit(f, n) == (f \div n) % 2 = 1
Optional(f) == Bit(f, 128)
Transitive(f) == Bit(f, 64)
Partial(f) == Bit(f, 32)
ExtendedLen(f) == Bit(f, 16)

KnownTypes == {1, 2, 3, 4, 5, 6, 7, 8, 9, 10, 32}

(* [opt, trans]: the Optional / Transitive bits the attribute's RFC assigns;
   class: the RFC 7606 approach for a malformed value                       *)
Row(t) ==
  CASE t = 1  -> [opt |-> FALSE, trans |-> TRUE,  class |-> "taw"]   \* ORIGIN
    [] t = 2  -> [opt |-> FALSE, trans |-> TRUE,  class |-> "taw"]   \* AS_PATH
    [] t = 3  -> [opt |-> FALSE, trans |-> TRUE,  class |-> "taw"]   \* NEXT_HOP
    [] t = 4  -> [opt |-> TRUE,  trans |-> FALSE, class |-> "taw"]   \* MULTI_EXIT_DISC
    [] t = 5  -> [opt |-> FALSE, trans |-> TRUE,  class |-> "taw"]   \* LOCAL_PREF
    [] t = 6  -> [opt |-> KnownD10, trans |-> TRUE, class |-> "ad"]  \* ATOMIC_AGGREGATE (well-known discretionary)
    [] t = 7  -> [opt |-> TRUE,  trans |-> TRUE,  class |-> "ad"]    \* AGGREGATOR
    [] t = 8  -> [opt |-> TRUE,  trans |-> TRUE,  class |-> "taw"]   \* COMMUNITIES
    [] t = 9  -> [opt |-> TRUE,  trans |-> FALSE, class |-> "taw"]   \* ORIGINATOR_ID
    [] t = 10 -> [opt |-> TRUE,  trans |-> FALSE, class |-> "taw"]   \* CLUSTER_LIST
    [] t = 32 -> [opt |-> TRUE,  trans |-> TRUE,  class |-> "taw"]   \* LARGE_COMMUNITIES

FlagsOK(t, f) == Optional(f) = Row(t).opt /\ Transitive(f) = Row(t).trans

(* AS_PATH with 4-octet AS numbers: (type in {1,2}, count >= 1, 4*count octets)* *)
RECURSIVE ASPathWalk(_, _, _, _)
ASPathWalk(v, i, set, seq) ==    \* -> [ok, set, seq]
  IF i > Len(v) THEN [ok |-> TRUE, set |-> set, seq |-> seq]
  ELSE IF i + 1 > Len(v) THEN [ok |-> FALSE, set |-> <<>>, seq |-> <<>>]
  ELSE LET ty == v[i]
           n == v[i + 1]
       IN IF ty \notin {1, 2} \/ n = 0 \/ i + 1 + 4 * n > Len(v)
            THEN [ok |-> FALSE, set |-> <<>>, seq |-> <<>>]
            ELSE LET asns == SubSeq(v, i + 2, i + 1 + 4 * n) IN
                 IF ty = 1 THEN ASPathWalk(v, i + 2 + 4 * n, set \o asns, seq)
                           ELSE ASPathWalk(v, i + 2 + 4 * n, set, seq \o asns)
ASPath(v) == ASPathWalk(v, 1, <<>>, <<>>)

(* value fault classes: "length", "value" (ORIGIN), "syntax" (AS_PATH) *)
ValueFault(t, v) ==
  CASE t = 1  -> IF Len(v) # 1 THEN "length" ELSE IF v[1] > 2 THEN "value" ELSE "none"
    [] t = 2  -> IF ASPath(v).ok THEN "none" ELSE "syntax"
    [] t \in {3, 4, 5, 9} -> IF Len(v) = 4 THEN "none" ELSE "length"
    [] t = 6  -> IF Len(v) = 0 THEN "none" ELSE "length"
    [] t = 7  -> IF Len(v) = 8 THEN "none" ELSE "length"
    [] t \in {8, 10} -> IF Len(v) > 0 /\ Len(v) % 4 = 0 THEN "none" ELSE "length"
    [] t = 32 -> IF Len(v) > 0 /\ Len(v) % 12 = 0 THEN "none" ELSE "length"

Subcodes(fault) ==
  CASE fault = "flags"  -> {4}
    [] fault = "length" -> {5}
    [] fault = "value"  -> {6}
    [] fault = "syntax" -> {11, 5}

(* The set of (class, subcode) outcomes that answer a fault actually present.
   A flag conflict always calls for treat-as-withdraw (RFC 7606 section 3.c:
   the stronger approach wins), whatever else is wrong with the value; the
   subcode may name either fault.                                           *)
ErrorOutcomes(t, f, v) ==
  LET vf == ValueFault(t, v) IN
  IF ~FlagsOK(t, f)
    THEN {<<"taw", s>> : s \in Subcodes("flags") \cup (IF vf = "none" THEN {} ELSE Subcodes(vf))}
  ELSE IF vf = "none" THEN {}
  ELSE {<<Row(t).class, s>> : s \in Subcodes(vf)}

MustSucceed(t, f, v) == ErrorOutcomes(t, f, v) = {}

(* decoded value on success, as the octets of the numbers / addresses in order *)
Value(t, v) == IF t = 2 THEN ASPath(v).set ELSE IF t = 6 THEN <<1>> ELSE v
Value2(t, v) == IF t = 2 THEN ASPath(v).seq ELSE <<>>
=============================================================================
