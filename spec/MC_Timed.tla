------------------------------ MODULE MC_Timed ------------------------------
(* Timed exhaustive model (scaled constants): hold / keepalive timers (C06),
   dial pacing and "keeps trying" (C11), hold-down ladder and amnesia (C12).
   Time is explicit; the environment (remote speaker, clock) moves only when
   corebgp is quiescent, as in the bubble harness; everything corebgp does in
   between is explored in every interleaving.                               *)
EXTENDS CoreBGP

CONSTANTS MaxNow, TMaxConns, TMaxMsgs, TPassive, TAlphabet,
          TStall      \* the remote may stop and resume reading (write back-pressure)

P == "p"
TSec(n) == n
TLongHold == 6
TDampMin == 4
TDampMax == 16
TAmnesia == 20
IdleHold == 2
ConnRetry == 3
LocalHold == 3

TCfg == (P :> [localAS |-> <<0, 0, 0, 1>>, remoteAS |-> <<0, 0, 0, 2>>, localID |-> <<10, 0, 0, 5>>,
               hold |-> LocalHold, idleHold |-> IdleHold, connRetry |-> ConnRetry, passive |-> TPassive,
               localAddr |-> "", remote |-> "r", caps |-> <<>>, openReply |-> NoReply,
               noHandler |-> FALSE, handlerReplies |-> <<>>, estWrites |-> <<>>,
               handlerWrites |-> <<>>, gates |-> <<>>])

TInit ==
  /\ now = 0
  /\ cfg = TCfg
  /\ srv = [InitSrv EXCEPT !.serving = TRUE, !.servePc = "running", !.serveCall = "serve",
                           !.accPc = "idle", !.reg = {P}]
  /\ calls = ("serve" :> [op |-> "serve", p |-> "", pc |-> "serving", w |-> 0, b |-> <<>>, r |-> ""])
  /\ pm = (P :> StartedPM(P))
  /\ fsm = (P :> StartedFsms(P))
  /\ conn = << >>
  /\ dial = (P :> NoDial)
  /\ out = <<>>
  /\ gh = InitGh

Names == <<"c1", "c2", "c3">>
NextC == Names[Cardinality(DOMAIN conn) + 1]
CanMore == Cardinality(DOMAIN conn) < TMaxConns

AbsOpen(h) == [k |-> "absopen", ok |-> TRUE, rid |-> <<10, 0, 0, 1>>, hold |-> h]
MsgOf(a) ==
  CASE a = "open3" -> AbsOpen(3)
    [] a = "open9" -> AbsOpen(9)
    [] a = "open0" -> AbsOpen(0)
    [] a = "ka" -> EvMsg(TypeKeepalive, <<>>)
    [] a = "upd" -> EvMsg(TypeUpdate, <<>>)
    [] a = "cease" -> EvMsg(TypeNotification, <<6, 0>>)
    [] a = "notif" -> EvMsg(TypeNotification, <<3, 1>>)

Env ==
  /\ Quiescent
  /\ \/ CanMore /\ EnvConnect(NextC, "r", "l")
     \/ CanMore /\ EnvDialAccept(P, NextC)
     \/ EnvDialRefuse(P)
     \/ \E c \in DOMAIN conn : \E a \in TAlphabet :
          /\ conn[c].held /\ ~conn[c].lclosed /\ ~conn[c].reof /\ conn[c].rx < TMaxMsgs
          /\ EnvSend(c, <<MsgOf(a)>>, <<>>, FALSE)
     \/ \E c \in DOMAIN conn : conn[c].held /\ ~conn[c].lclosed /\ ~conn[c].reof /\ EnvRClose(c)
     \/ TStall /\ \E c \in DOMAIN conn : conn[c].held /\ ~conn[c].lclosed /\ ~conn[c].reset /\ EnvStall(c, ~conn[c].stalled)
     \/ /\ now < MaxNow /\ now' = now + 1                     \* one tick
        /\ UNCHANGED <<cfg, srv, calls, pm, fsm, conn, dial, out, gh>>

TNext == Internal \/ Env
TSpec == TInit /\ [][TNext]_vars

---------------------------------------------------------------------------
F(d) == fsm[P][d]
Up(d) == F(d).pc = "st" /\ F(d).cur \in {"openConfirm", "established"}

(* C06: timers of a running session *)
SessionTimers ==
  \A d \in Dirs : Up(d) =>
    IF F(d).H = 0 THEN F(d).holdDl = Off /\ F(d).kaDl = Off
    ELSE /\ F(d).H \in {3}                                   \* min(local 3, remote 3 or 9)
         /\ F(d).holdDl # Off /\ F(d).holdDl <= now + F(d).H
         /\ F(d).kaDl # Off /\ F(d).kaDl <= now + F(d).H \div 3

(* nothing a goroutine is waiting on is overdue once corebgp is quiescent *)
NothingOverdue ==
  Quiescent =>
    /\ \A d \in Dirs : Up(d) /\ F(d).H # 0 => F(d).holdDl > now /\ F(d).kaDl > now
    /\ \A d \in Dirs : InState(P, d, "openSent") => F(d).holdDl > now /\ F(d).holdDl <= now + TLongHold
    /\ InState(P, "out", "idle") => F("out").idleDl > now /\ F("out").idleDl <= now + IdleHold
    /\ InState(P, "out", "connect") => F("out").crDl > now /\ F("out").crDl <= now + ConnRetry
    /\ InState(P, "out", "active") => F("out").crDl > now /\ F("out").crDl <= now + ConnRetry
    /\ pm[P].pc = "sel" /\ pm[P].holdDown => pm[P].sdDl > now

(* C12: the hold-down ladder *)
HoldDownLadder ==
  LET m == pm[P] IN
  /\ m.sd \in {0, TDampMin, 2 * TDampMin, TDampMax}
  /\ m.holdDown => /\ m.sd >= TDampMin /\ m.lastErr # Off /\ m.lastErr <= now
                   /\ (m.pc = "sel" => m.sdDl = m.lastErr + m.sd)
  /\ (m.pc = "sel" /\ ~m.holdDown) => m.sdDl = Off

(* C11: outside a hold-down a non-passive peer always has its outbound FSM, unless an inbound session is up *)
KeepsTrying ==
  (pm[P].pc = "sel" /\ ~pm[P].holdDown /\ ~pm[P].closing /\ ~TPassive) =>
     pm[P].has["out"] \/ pm[P].st["in"] = "established"

(* a pending or finished dial belongs to an outbound FSM that is dialling *)
DialOwned ==
  dial[P].st # "none" => pm[P].has["out"] /\ F("out").everDialed

TimedInv ==
  /\ GhostOK /\ AtMostOneEstablished /\ PmTable /\ HeldDownIsQuiet /\ PassiveNeverDials
  /\ SessionTimers /\ NothingOverdue /\ HoldDownLadder /\ KeepsTrying /\ DialOwned

(* reachability guards (expected to be VIOLATED: they show the ladder is exercised) *)
NeverMax     == pm[P].sd # TDampMax
NeverAmnesia == ~(pm[P].sd = TDampMin /\ pm[P].lastErr # Off /\ pm[P].lastErr > TAmnesia)
NeverEstablished == \A d \in Dirs : ~(Up(d) /\ F(d).cur = "established")

TView == <<srv, calls, pm, [p \in Peers |-> [d \in Dirs |-> [fsm[p][d] EXCEPT !.sess = IF @ = 0 THEN 0 ELSE 1]]],
           conn, [p \in Peers |-> [dial[p] EXCEPT !.k = IF @ = 0 THEN 0 ELSE 1]],
           [gh EXCEPT !.nsess = [p \in Peers |-> 0]], now>>
=============================================================================
