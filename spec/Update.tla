------------------------------- MODULE Update -------------------------------
(* UPDATE message partitioning (RFC 4271 4.3) and RFC 7606 error handling of
   the decoder, as functions of byte strings.  Written from the RFCs and the
   property statements C16 / C17.                                            *)
EXTENDS Integers, Sequences, FiniteSets

U16At(b, i) == b[i] * 256 + b[i + 1]

(* Split(body): the three sections as the two length fields dictate, or an
   abort when a length field overruns the message.                          *)
Split(body) ==
  IF Len(body) < 4 THEN [abort |-> "short"]
  ELSE LET wrl == U16At(body, 1) IN
    IF Len(body) - 2 < wrl + 2 THEN [abort |-> "wrlen"]
    ELSE LET pal == U16At(body, 3 + wrl) IN
      IF Len(body) - (4 + wrl) < pal THEN [abort |-> "palen"]
      ELSE [abort |-> "none",
            withdrawn |-> SubSeq(body, 3, 2 + wrl),
            attrs |-> SubSeq(body, 5 + wrl, 4 + wrl + pal),
            nlri |-> SubSeq(body, 5 + wrl + pal, Len(body))]

ExtLen(flags) == (flags \div 16) % 2 = 1

(* Walk the attribute block: the attributes in wire order and whether the
   walk ended with a header or value overrunning the block.                 *)
RECURSIVE WalkFrom(_, _, _)
WalkFrom(blk, i, acc) ==
  LET r == Len(blk) - i + 1 IN
  IF r <= 0 THEN [items |-> acc, overrun |-> FALSE]
  ELSE IF r < 2 THEN [items |-> acc, overrun |-> TRUE]
  ELSE LET flags == blk[i]
           type == blk[i + 1]
           hdr == IF ExtLen(flags) THEN 4 ELSE 3
       IN IF r < hdr THEN [items |-> acc, overrun |-> TRUE]
          ELSE LET len == IF ExtLen(flags) THEN U16At(blk, i + 2) ELSE blk[i + 2] IN
               IF r - hdr < len THEN [items |-> acc, overrun |-> TRUE]
               ELSE WalkFrom(blk, i + hdr + len,
                      Append(acc, [flags |-> flags, type |-> type,
                                   value |-> SubSeq(blk, i + hdr, i + hdr + len - 1)]))
Walk(blk) == WalkFrom(blk, 1, <<>>)

MPReachType == 14
MPUnreachType == 15
IsMP(t) == t \in {MPReachType, MPUnreachType}

Call(k, type, flags, b) == [k |-> k, type |-> type, flags |-> flags, b |-> b]

(* Run(body, stops): the decoder's behaviour.  stops[j] says whether the
   reply to the j-th callback invocation contains a *Notification (which ends
   decoding).  Result:
     calls    : the callback invocations, in order, with their byte arguments
     abort    : "none" | "short" | "wrlen" | "palen" | "mpdup"
     overrun  : an attribute overran the block
     missing  : set of missing well-known mandatory attribute types
     stopped  : decoding ended because of a reply                           *)
StopAt(stops, j) == j <= Len(stops) /\ stops[j]

RECURSIVE AttrCalls(_, _, _, _, _)
AttrCalls(items, k, seen, calls, stops) ==
  \* -> [calls, seen, end]  end: "done" | "mpdup" | "stopped"
  IF k > Len(items) THEN [calls |-> calls, seen |-> seen, end |-> "done"]
  ELSE LET a == items[k] IN
    IF a.type \in seen
      THEN IF IsMP(a.type) THEN [calls |-> calls, seen |-> seen, end |-> "mpdup"]
           ELSE AttrCalls(items, k + 1, seen, calls, stops)
      ELSE LET c2 == Append(calls, Call("attr", a.type, a.flags, a.value)) IN
           IF StopAt(stops, Len(c2))
             THEN [calls |-> c2, seen |-> seen \cup {a.type}, end |-> "stopped"]
             ELSE AttrCalls(items, k + 1, seen \cup {a.type}, c2, stops)

Run(body, stops) ==
  LET s == Split(body) IN
  IF s.abort # "none"
    THEN [calls |-> <<>>, abort |-> s.abort, overrun |-> FALSE, missing |-> {}, stopped |-> FALSE]
  ELSE LET c1 == <<Call("wr", 0, 0, s.withdrawn)>> IN
    IF StopAt(stops, 1)
      THEN [calls |-> c1, abort |-> "none", overrun |-> FALSE, missing |-> {}, stopped |-> TRUE]
    ELSE LET w == Walk(s.attrs)
             a == AttrCalls(w.items, 1, {}, c1, stops)
         IN
      IF a.end = "mpdup"
        THEN [calls |-> a.calls, abort |-> "mpdup", overrun |-> FALSE, missing |-> {}, stopped |-> FALSE]
      ELSE IF a.end = "stopped"
        THEN [calls |-> a.calls, abort |-> "none", overrun |-> FALSE, missing |-> {}, stopped |-> TRUE]
      ELSE LET announces == s.nlri # <<>> \/ MPReachType \in a.seen
               missing == IF announces THEN {1, 2} \ a.seen ELSE {}
           IN [calls |-> Append(a.calls, Call("nlri", 0, 0, s.nlri)), abort |-> "none",
               overrun |-> w.overrun, missing |-> missing, stopped |-> FALSE]
=============================================================================
