------------------------------- MODULE MC_Api -------------------------------
(* Exhaustive model of the Server API under concurrent use (C20, C10):
   up to MaxCalls calls out of AddPeer / DeletePeer / GetPeer / ListPeers /
   Serve / Close over two passive peers, issued at ANY moment (also while
   other calls are in progress), plus one inbound handshake so that a peer has
   something to tear down.  Checks the registry / life-cycle invariants in
   every reachable state.                                                   *)
EXTENDS CoreBGP

CONSTANTS MaxCalls, ApiOps

Ps == {"p1", "p2"}
ACfg == [p \in Ps |->
          [localAS |-> <<0, 0, 0, 1>>, remoteAS |-> <<0, 0, 0, 2>>, localID |-> <<10, 0, 0, 5>>,
           hold |-> 90, idleHold |-> 1, connRetry |-> 1, passive |-> TRUE,
           localAddr |-> "", remote |-> p, caps |-> <<>>, openReply |-> NoReply,
           noHandler |-> FALSE, handlerReplies |-> <<>>, estWrites |-> <<>>,
           handlerWrites |-> <<>>, gates |-> <<>>]]

VARIABLE ncalls
avars == <<vars, ncalls>>

AInit ==
  /\ cfg = ACfg /\ srv = InitSrv /\ calls = << >>
  /\ pm = [p \in Ps |-> NoPM] /\ fsm = [p \in Ps |-> [d \in Dirs |-> NoFsm]]
  /\ conn = << >> /\ dial = [p \in Ps |-> NoDial] /\ now = 0 /\ out = <<>> /\ gh = InitGh
  /\ ncalls = 0

CallId(n) == <<"a1", "a2", "a3", "a4", "a5", "a6">>[n]

Issue ==
  /\ ncalls < MaxCalls
  /\ ncalls' = ncalls + 1
  /\ \E op \in ApiOps :
       \/ /\ op \in {"addPeer", "deletePeer", "getPeer"}
          /\ \E p \in Ps : EnvCall(CallId(ncalls + 1), op, p, 0, <<>>)
       \/ /\ op \in {"listPeers", "close"}
          /\ EnvCall(CallId(ncalls + 1), op, "", 0, <<>>)
       \/ /\ op = "serve" /\ \A id \in DOMAIN calls : calls[id].op # "serve"   \* Serve is called once
          /\ srv.servePc = "none"
          /\ EnvCall(CallId(ncalls + 1), op, "", 0, <<>>)

(* the remote: one inbound connection from p1, a valid OPEN and a KEEPALIVE *)
Remote ==
  /\ UNCHANGED ncalls
  /\ \/ /\ "c1" \notin DOMAIN conn /\ srv.servePc = "running" /\ EnvConnect("c1", "p1", "l")
     \/ /\ "c1" \in DOMAIN conn /\ conn["c1"].held /\ conn["c1"].rx < 2 /\ conn["c1"].inbox = <<>>
        /\ ~conn["c1"].lclosed
        /\ EnvSend("c1", <<IF conn["c1"].rx = 0
                             THEN [k |-> "absopen", ok |-> TRUE, rid |-> <<10, 0, 0, 9>>, hold |-> 90]
                             ELSE EvMsg(TypeKeepalive, <<>>)>>, <<>>, FALSE)

LocalOps == {"w", "wOpen", "wKa", "cb", "cleanup", "closeOnly", "goreq", "goerr", "exit",
             "dead", "select", "setNeg", "holdReset", "timersOff", "closeWriter",
             "cbWrite", "cbWriteRet", "armCr"}
HasLocal(p, d) == fsm[p][d].pc = "run" /\ fsm[p][d].todo # <<>> /\ Head(fsm[p][d].todo).op \in LocalOps

(* no hold / keepalive timer expiry here (untimed model, they add nothing to the API question) *)
Core ==
  \/ SrvNext
  \/ \E id \in DOMAIN calls : CallNext(id)
  \/ \E p \in Ps : PmNext(p) \/ \E d \in Dirs :
       \/ FsmStep(p, d) \/ FsmSeesCloseReq(p, d) \/ FsmErrSeesClose(p, d) \/ PlainClose(p, d)
       \/ Recv(p, d) \/ SessionClose(p, d)

ANext ==
  IF \E p \in Ps, d \in Dirs : HasLocal(p, d)
    THEN LET pd == CHOOSE x \in Ps \X Dirs : HasLocal(x[1], x[2]) IN FsmStep(pd[1], pd[2]) /\ UNCHANGED ncalls
    ELSE (Core /\ UNCHANGED ncalls) \/ Issue \/ Remote

ASpec == AInit /\ [][ANext]_avars

(* ---- invariants ---- *)
(* while the server is serving and nobody is inside a registry operation, every registered peer runs *)
StartedIffServing ==
  (srv.servePc = "running" /\ srv.lock = "") =>
     \A p \in srv.reg : pm[p].pc \in {"sel", "run"}

(* once Serve has finished, nothing of any peer is left running *)
NothingAfterServe ==
  srv.done => \A p \in Ps : pm[p].pc \in {"off", "done"} /\ \A d \in Dirs : fsm[p][d].pc = "none"

(* a peer that is not registered has no goroutines, unless its DeletePeer is still in progress *)
UnregisteredIsStopped ==
  \A p \in Ps : (p \notin srv.reg /\ ~(\E id \in DOMAIN calls : calls[id].op = "deletePeer" /\ calls[id].p = p /\ calls[id].pc = "wait"))
                  => pm[p].pc = "off"

(* a call that has returned is gone; Close returns only when Serve is done or never ran *)
CloseReturnsLate ==
  \A id \in DOMAIN calls : (calls[id].op = "close" /\ calls[id].pc = "ret") => (srv.done \/ ~srv.serving)

ApiInv ==
  /\ GhostOK /\ AtMostOneEstablished /\ PmTable /\ StopComplete /\ LockSane
  /\ StartedIffServing /\ NothingAfterServe /\ UnregisteredIsStopped /\ CloseReturnsLate

AView == <<srv, calls, pm, [p \in Ps |-> [d \in Dirs |-> [fsm[p][d] EXCEPT !.sess = IF @ = 0 THEN 0 ELSE 1]]],
           conn, dial, [gh EXCEPT !.nsess = [p \in Ps |-> 0], !.ncb = [p \in Ps |-> [n \in CbNames \cup PmGateNames |-> 0]]], ncalls>>
=============================================================================
