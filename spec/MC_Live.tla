------------------------------ MODULE MC_Live ------------------------------
(* Liveness half of C11 at design level: after any finite sequence of
   non-damping faults (refused / stalled dials, connections closed at any
   state, Cease NOTIFICATIONs) a non-passive peer facing a remote that then
   cooperates ends up -- and stays -- Established.

   Finite without a state constraint: the fault budget only decreases,
   connection names are recycled once nothing refers to them, timers are
   abstract.  The hold timer never fires here: the remote is assumed to send
   its KEEPALIVEs in time (that half is C06).  Weak fairness on every
   goroutine of corebgp and on the remote's cooperative moves.              *)
EXTENDS CoreBGP

CONSTANTS Faults,       \* how many faults the environment may inject in total
          LivePassive,  \* the peer is passive (the remote then has to connect)
          RemoteDials,  \* the remote opens connections of its own
          LiveConns     \* connection names available at a time (2 or 3)

P == "p"
LocalID == <<10, 0, 0, 5>>
RemoteIDs == {<<10, 0, 0, 1>>, <<10, 0, 0, 9>>}

VARIABLES budget,   \* faults left
          rid       \* the identifier the remote uses (chosen once)

lvars == <<vars, budget, rid>>

LCfg == (P :> [localAS |-> <<0, 0, 0, 1>>, remoteAS |-> <<0, 0, 0, 2>>, localID |-> LocalID,
               hold |-> 90, idleHold |-> 1, connRetry |-> 1, passive |-> LivePassive,
               localAddr |-> "", remote |-> "r", caps |-> <<>>, openReply |-> NoReply,
               noHandler |-> FALSE, handlerReplies |-> <<>>, estWrites |-> <<>>,
               handlerWrites |-> <<>>, gates |-> <<>>])

LInit ==
  /\ cfg = LCfg
  /\ srv = [InitSrv EXCEPT !.serving = TRUE, !.servePc = "running", !.serveCall = "serve",
                           !.accPc = "idle", !.reg = {P}]
  /\ calls = ("serve" :> [op |-> "serve", p |-> "", pc |-> "serving", w |-> 0, b |-> <<>>, r |-> ""])
  /\ pm = (P :> StartedPM(P))
  /\ fsm = (P :> StartedFsms(P))
  /\ conn = << >>
  /\ dial = (P :> NoDial)
  /\ now = 0
  /\ out = <<>>
  /\ gh = InitGh
  /\ budget = Faults
  /\ rid \in RemoteIDs

ConnNames == IF LiveConns = 2 THEN {"c1", "c2"} ELSE {"c1", "c2", "c3"}
Free == ConnNames \ DOMAIN conn
NextName == CHOOSE c \in Free : \A x \in Free : x = c \/ ~(\E i, j \in 1..3 :
               <<"c1", "c2", "c3">>[i] = x /\ <<"c1", "c2", "c3">>[j] = c /\ i < j)

(* a connection nothing refers to any more is forgotten (its name is recycled) *)
Referenced(c) ==
  \/ \E d \in Dirs : fsm[P][d].conn = c
  \/ dial[P].conn = c
  \/ srv.accConn = c
  \/ \E i \in 1..Len(srv.backlog) : srv.backlog[i] = c
  \/ \E i \in 1..Len(pm[P].todo) : pm[P].todo[i].op = "closeConn" /\ pm[P].todo[i].c = c
Forget ==
  /\ \E c \in DOMAIN conn :
       /\ ~Referenced(c)
       /\ conn' = [x \in DOMAIN conn \ {c} |-> conn[x]]
  /\ UNCHANGED <<cfg, srv, calls, pm, fsm, dial, now, out, gh, budget, rid>>

(* what the remote has to do next on connection c to be cooperative: answer
   with its OPEN, then with a KEEPALIVE *)
Cooperate(c) ==
  /\ ~conn[c].lclosed /\ ~conn[c].reof /\ conn[c].inbox = <<>>
  /\ \/ /\ conn[c].rx = 0
        /\ EnvSend(c, <<[k |-> "absopen", ok |-> TRUE, rid |-> rid, hold |-> 90]>>, <<>>, FALSE)
     \/ /\ conn[c].rx = 1
        /\ EnvSend(c, <<EvMsg(TypeKeepalive, <<>>)>>, <<>>, FALSE)
  /\ UNCHANGED <<budget, rid>>

RemoteConnects ==      \* the remote dials us when we have no inbound connection in progress
  /\ RemoteDials /\ Free # {} /\ \A c \in DOMAIN conn : conn[c].dir # "in" \/ conn[c].lclosed
  /\ srv.backlog = <<>>
  /\ EnvConnect(NextName, "r", "l")
  /\ UNCHANGED <<budget, rid>>

AcceptsDial ==
  /\ Free # {} /\ EnvDialAccept(P, NextName)
  /\ UNCHANGED <<budget, rid>>

Fault ==
  /\ budget > 0 /\ budget' = budget - 1 /\ UNCHANGED rid
  /\ \/ EnvDialRefuse(P)
     \/ \E c \in DOMAIN conn : ~conn[c].lclosed /\ ~conn[c].reof /\ EnvRClose(c)
     \/ \E c \in DOMAIN conn : ~conn[c].lclosed /\ ~conn[c].reof /\ conn[c].inbox = <<>> /\
          EnvSend(c, <<EvMsg(TypeNotification, <<6, 0>>)>>, <<>>, FALSE)

(* corebgp's own steps, without hold-timer expiry (the remote keeps its side alive) *)
FsmLive(d) ==
  \/ FsmStep(P, d) \/ FsmSeesCloseReq(P, d) \/ FsmErrSeesClose(P, d)
  \/ IdleTimer(P, d) \/ PlainClose(P, d) \/ ConnectDialResult(P, d) \/ ConnectRetry(P, d)
  \/ ConnectCancelResult(P, d) \/ ActiveRetry(P, d) \/ Recv(P, d) \/ SessionClose(P, d)

Core(A) == A /\ UNCHANGED <<budget, rid>>

(* partial-order reduction as in MC_Pair: steps that touch only their own
   goroutine's state are taken first *)
LocalOps == {"w", "wOpen", "wKa", "cb", "cleanup", "closeOnly", "goreq", "goerr", "exit",
             "dead", "select", "setNeg", "holdReset", "timersOff", "closeWriter",
             "cbWrite", "cbWriteRet", "armCr"}
HasLocal(d) == fsm[P][d].pc = "run" /\ fsm[P][d].todo # <<>> /\ Head(fsm[P][d].todo).op \in LocalOps
PmHasLocal == pm[P].pc = "run" /\ pm[P].todo # <<>> /\ Head(pm[P].todo).op \in {"hst", "enOut", "damp", "done"}

LNext ==
  IF \E d \in Dirs : HasLocal(d) THEN Core(FsmStep(P, CHOOSE d \in Dirs : HasLocal(d)))
  ELSE IF PmHasLocal THEN Core(PmStep(P))
  ELSE IF dial[P].st = "spawned" THEN Core(DialBegin(P))
  ELSE IF \E c \in DOMAIN conn : ~Referenced(c) THEN Forget
  ELSE
  \/ Core(PmNext(P)) \/ Core(SrvNext)
  \/ \E d \in Dirs : Core(FsmLive(d))
  \/ \E c \in DOMAIN conn : Cooperate(c)
  \/ RemoteConnects \/ AcceptsDial \/ Fault

Established == \E d \in Dirs : fsm[P][d].pc = "st" /\ fsm[P][d].cur = "established"

LSpec ==
  /\ LInit /\ [][LNext]_lvars
  /\ WF_lvars(Core(PmNext(P))) /\ WF_lvars(Core(DialBegin(P))) /\ WF_lvars(Core(SrvNext))
  \* Go's select picks among ready cases at random: no ready case is starved for ever (strong fairness)
  /\ \A d \in Dirs : SF_lvars(Core(PmSelectTransition(P, d))) /\ SF_lvars(Core(PmSelectError(P, d)))
  /\ SF_lvars(Core(PmSelectInConn(P)))
  /\ \A d \in Dirs : WF_lvars(Core(FsmLive(d)))
  /\ WF_lvars(Forget)
  /\ \A c \in ConnNames : WF_lvars(c \in DOMAIN conn /\ Cooperate(c))
  /\ WF_lvars(RemoteConnects) /\ WF_lvars(AcceptsDial)

(* C11: the session is eventually Established for good *)
EventuallyEstablished == <>[]Established

LiveInv == GhostOK /\ AtMostOneEstablished /\ PmTable
=============================================================================
