--------------------------------- MODULE Gen ---------------------------------
(* Script generation from the specification (spec -> code direction).  TLC
   simulates the timed system specification with an environment that moves
   only at quiescence -- exactly what the bubble harness can do -- and records
   the environment's moves in `script`.  Each finished script is printed as
   JSON; the driver turns it into harness stimuli (abstract messages become
   concrete BGP messages), runs it on the real code and validates the
   recorded trace against the same specification.                           *)
EXTENDS CoreBGP, Json

CONSTANTS GenSteps,     \* environment moves per script
          GenPassive

P == "p1"
LocalID == <<10, 0, 0, 1>>
RidLo == <<10, 0, 0, 0>>
RidHi == <<10, 0, 0, 2>>

VARIABLES script, done
gvars == <<vars, script, done>>

GCfg == (P :> [localAS |-> <<0, 0, 253, 233>>, remoteAS |-> <<0, 0, 253, 234>>, localID |-> LocalID,
               hold |-> 9, idleHold |-> Sec(5), connRetry |-> Sec(5), passive |-> GenPassive,
               localAddr |-> "", remote |-> "10.0.0.2", caps |-> <<>>, openReply |-> NoReply,
               noHandler |-> FALSE, handlerReplies |-> <<>>, estWrites |-> <<>>,
               handlerWrites |-> <<>>, gates |-> <<>>])

GInit ==
  /\ now = 0
  /\ cfg = GCfg
  /\ srv = [InitSrv EXCEPT !.serving = TRUE, !.servePc = "running", !.serveCall = "a1",
                           !.accPc = "idle", !.reg = {P}]
  /\ calls = ("a1" :> [op |-> "serve", p |-> "", pc |-> "serving", w |-> 0, b |-> <<>>, r |-> ""])
  /\ pm = (P :> StartedPM(P))
  /\ fsm = (P :> StartedFsms(P))
  /\ conn = << >>
  /\ dial = (P :> NoDial)
  /\ out = <<>>
  /\ gh = InitGh
  /\ script = <<>>
  /\ done = FALSE

Name(n) == <<"c1", "c2", "c3", "c4", "c5", "c6", "c7", "c8", "c9", "c10", "c11", "c12">>[n]
NextC == Name(Cardinality(DOMAIN conn) + 1)
CanMore == Cardinality(DOMAIN conn) < 12

Msgs == {"openLo", "openHi", "openBad", "ka", "upd", "cease", "notif", "fault", "openka"}
EventsOf(m) ==
  CASE m = "openLo" -> <<[k |-> "absopen", ok |-> TRUE, rid |-> RidLo, hold |-> 9]>>
    [] m = "openHi" -> <<[k |-> "absopen", ok |-> TRUE, rid |-> RidHi, hold |-> 9]>>
    [] m = "openka" -> <<[k |-> "absopen", ok |-> TRUE, rid |-> RidHi, hold |-> 9], EvMsg(TypeKeepalive, <<>>)>>
    [] m = "openBad" -> <<[k |-> "absopen", ok |-> FALSE, rid |-> RidLo, hold |-> 1]>>
    [] m = "ka" -> <<EvMsg(TypeKeepalive, <<>>)>>
    [] m = "upd" -> <<EvMsg(TypeUpdate, <<0, 0, 0, 0>>)>>
    [] m = "cease" -> <<EvMsg(TypeNotification, <<6, 0>>)>>
    [] m = "notif" -> <<EvMsg(TypeNotification, <<3, 1>>)>>
    [] m = "fault" -> <<EvFault([code |-> 1, sub |-> 1, data |-> <<>>])>>

Step(op, c, m, d) == [op |-> op, conn |-> c, m |-> m, d |-> d]
Rec(s) == script' = Append(script, s) /\ UNCHANGED done

Live(c) == ~conn[c].lclosed /\ ~conn[c].reof /\ ~conn[c].reset /\ ~conn[c].dead

NextDeadline == IF {t \in Deadlines : t > now} = {} THEN now + Sec(1)
                ELSE CHOOSE t \in {u \in Deadlines : u > now} : \A u \in Deadlines : u > now => t <= u

NoStall == \A c \in DOMAIN conn : ~conn[c].stalled

GEnv ==
  /\ Quiescent /\ ~done /\ Len(script) < GenSteps
  /\ \/ /\ CanMore /\ EnvConnect(NextC, "10.0.0.2", "10.0.0.1") /\ Rec(Step("connect", NextC, "", 0))
     \* the remote stops reading for a while (not in the last moves: a script ends with every connection readable)
     \/ \E c \in DOMAIN conn : /\ Live(c) /\ conn[c].held /\ ~conn[c].stalled /\ Len(script) + 6 < GenSteps
                                /\ EnvStall(c, TRUE) /\ Rec(Step("stall", c, "", 0))
     \* the application writes on the current session
     \/ /\ gh.nsess[P] >= 1
        /\ EnvCall("w" \o ToString(Len(script)), "write", P, gh.nsess[P], <<7, Len(script)>>)
        /\ Rec(Step("write", "", "", gh.nsess[P]))
     \/ /\ CanMore /\ EnvDialAccept(P, NextC) /\ Rec(Step("dialAccept", NextC, "", 0))
     \/ /\ EnvDialRefuse(P) /\ Rec(Step("dialRefuse", "", "", 0))
     \/ \E c \in DOMAIN conn : \E m \in Msgs :
          /\ Live(c) /\ conn[c].held
          /\ EnvSend(c, EventsOf(m), <<>>, m = "fault") /\ Rec(Step("send", c, m, 0))
     \/ \E c \in DOMAIN conn : Live(c) /\ conn[c].held /\ EnvRClose(c) /\ Rec(Step("rclose", c, "", 0))
     \/ \E c \in DOMAIN conn : Live(c) /\ conn[c].held /\ EnvReset(c) /\ Rec(Step("rreset", c, "", 0))
     \/ \E t \in {NextDeadline, IF now + Sec(1) < NextDeadline THEN now + Sec(1) ELSE NextDeadline,
                  IF now + 1 < NextDeadline THEN NextDeadline - 1 ELSE NextDeadline} :
          /\ now' = t /\ Rec(Step("advance", "", "", t - now))
          /\ UNCHANGED <<cfg, srv, calls, pm, fsm, conn, dial, out, gh>>
     \/ /\ "stop" \notin DOMAIN calls /\ ~srv.closed /\ P \in srv.reg /\ Len(script) + 4 >= GenSteps /\ NoStall
        /\ \/ EnvCall("stop", "deletePeer", P, 0, <<>>) /\ Rec(Step("deletePeer", "", "", 0))
           \/ EnvCall("stop", "close", "", 0, <<>>) /\ Rec(Step("close", "", "", 0))

(* reading resumes: always possible, and it does not count as a move once the script is full *)
GUnstall ==
  /\ Quiescent /\ ~done
  /\ \E c \in DOMAIN conn : conn[c].stalled /\ EnvStall(c, FALSE) /\ Rec(Step("unstall", c, "", 0))

GFinish ==
  /\ Quiescent /\ ~done /\ Len(script) >= GenSteps /\ NoStall
  /\ PrintT(<<"SCRIPT", ToJson(script)>>)
  /\ done' = TRUE /\ UNCHANGED <<vars, script>>

GNext ==
  \/ Internal /\ UNCHANGED <<script, done>>
  \/ GEnv
  \/ GUnstall
  \/ GFinish

GSpec == GInit /\ [][GNext]_gvars
=============================================================================
