------------------------------- MODULE Lemmas -------------------------------
(* Laws of the byte-level functional modules, checked by TLC over bounded
   domains (one initial state per element of the domain).  They guard the
   oracle modules themselves: round trips, framing independent of position,
   agreement between construction and acceptance.                           *)
EXTENDS Integers, Sequences, FiniteSets, TLC, Open, Notif, Update, Prefix, Attrs

VARIABLE x
Small == {0, 1, 2, 4, 65, 255}
Seqs(S, n) == UNION {[1..k -> S] : k \in 0..n}

(* ---- framing ---- *)
Bodies == Seqs({0, 7}, 3)
WireDomain == [t : {1, 2, 3, 4, 9}, b : Bodies, t2 : {2, 4}, b2 : Seqs({1}, 2), cut : 0..24]
WireLaw(d) ==
  LET s == Frame(d.t, d.b) \o Frame(d.t2, d.b2)
      r == Deframe(s)
      pre == Deframe(SubSeq(s, 1, IF d.cut < Len(s) THEN d.cut ELSE Len(s)))
  IN /\ IF KnownType(d.t)
          THEN r.fault = "none" /\ r.rest = <<>> /\ Len(r.msgs) = 2
               /\ r.msgs[1] = [type |-> d.t, body |-> d.b] /\ r.msgs[2] = [type |-> d.t2, body |-> d.b2]
          ELSE r.fault = "badtype" /\ r.ftype = d.t /\ r.msgs = <<>>
     /\ WellFormedStream(s) = KnownType(d.t)
     \* a prefix of the stream yields a prefix of the messages and never a fault the whole stream lacks
     /\ KnownType(d.t) => pre.fault = "none" /\ Len(pre.msgs) <= 2
                          /\ \A k \in 1..Len(pre.msgs) : pre.msgs[k] = r.msgs[k]

(* ---- NOTIFICATION ---- *)
NotifDomain == [c : {0, 3, 6, 255}, s : {0, 1, 255}, d : Seqs({0, 9}, 3)]
NotifLaw(d) ==
  LET m == NEncode(d.c, d.s, d.d)
      r == Deframe(m)
      n == NDecode(r.msgs[1].body)
  IN r.fault = "none" /\ Len(r.msgs) = 1 /\ r.msgs[1].type = TypeNotification
     /\ n.ok /\ n.code = d.c /\ n.sub = d.s /\ n.data = d.d

(* ---- OPEN: what a speaker constructs is accepted by a peer configured for it ---- *)
CapPool == {Cap(1, <<0, 1, 0, 1>>), Cap(2, <<>>), Cap(65, <<0, 0, 0, 9>>), Cap(69, <<0, 1, 1, 3>>)}
OpenDomain == [as : {<<0, 0, 0, 1>>, <<0, 0, 255, 255>>, <<0, 1, 0, 0>>, <<255, 255, 255, 255>>},
               hold : {0, 3, 90, 65535}, caps : Seqs(CapPool, 2)]
OpenLaw(d) ==
  LET mine == [localAS |-> d.as, remoteAS |-> <<0, 0, 0, 7>>, localID |-> <<10, 0, 0, 1>>, hold |-> d.hold]
      theirs == [localAS |-> <<0, 0, 0, 7>>, remoteAS |-> d.as, localID |-> <<10, 0, 0, 2>>, hold |-> 90]
      body == OpenBody(mine, d.caps)
  IN /\ Representable(mine, d.caps)
     /\ StructurallySound(body) /\ Acceptable(body, theirs) /\ ~MayRefuse(body, theirs)
     /\ Carried(body) = OwnCaps(mine, d.caps)
     /\ HoldTime(body) = d.hold /\ BGPId(body) = mine.localID
     /\ Deframe(OpenMsg(mine, d.caps)).msgs = <<[type |-> TypeOpen, body |-> body]>>
     \* and refused by a peer expecting another AS, with a NOTIFICATION that applies
     /\ LET other == [theirs EXCEPT !.remoteAS = <<0, 0, 0, 8>>] IN
        ~Acceptable(body, other) /\ Applies([code |-> 2, sub |-> 2, data |-> <<>>], body, other)
        /\ ~Applies([code |-> 2, sub |-> 6, data |-> <<>>], body, other)

(* ---- prefixes: decode is the inverse of encode ---- *)
PfxEntry == [len : {0, 1, 8, 9, 24, 32}, fill : {0, 255}]
PfxDomain == [l : Seqs(PfxEntry, 2), ap : BOOLEAN, cut : 0..12]
EncOne(e, ap) ==
  (IF ap THEN <<0, 0, 1, 2>> ELSE <<>>) \o <<e.len>> \o [k \in 1..((e.len + 7) \div 8) |-> e.fill]
RECURSIVE EncList(_, _, _)
EncList(l, k, ap) == IF k > Len(l) THEN <<>> ELSE EncOne(l[k], ap) \o EncList(l, k + 1, ap)
PfxLaw(d) ==
  LET b == EncList(d.l, 1, d.ap)
      r == DecodePrefixes(b, FALSE, d.ap)
      c == IF d.cut < Len(b) THEN d.cut ELSE Len(b)
      t == DecodePrefixes(SubSeq(b, 1, c), FALSE, d.ap)
  IN /\ r.ok /\ Len(r.list) = Len(d.l)
     /\ \A k \in 1..Len(d.l) :
          /\ r.list[k].len = d.l[k].len
          /\ r.list[k].id = (IF d.ap THEN <<0, 0, 1, 2>> ELSE <<>>)
          /\ r.list[k].addr = [j \in 1..4 |-> IF j <= (d.l[k].len + 7) \div 8 THEN d.l[k].fill ELSE 0]
     \* a truncation either fails or yields a prefix of the list (never an invented route)
     /\ t.ok => Len(t.list) <= Len(r.list) /\ \A k \in 1..Len(t.list) : t.list[k] = r.list[k]

(* ---- UPDATE: a body built from sections is split back into them ---- *)
AttrPool == {<<64, 1, 1, 0>>, <<64, 2, 0>>, <<128, 14, 0>>, <<144, 99, 0, 1, 7>>, <<64, 1, 1, 2>>}
UpdDomain == [w : Seqs({8, 10}, 2), a : Seqs(AttrPool, 3), n : Seqs({24, 1}, 2)]
RECURSIVE Cat(_, _)
Cat(ss, k) == IF k > Len(ss) THEN <<>> ELSE ss[k] \o Cat(ss, k + 1)
UpdLaw(d) ==
  LET blk == Cat(d.a, 1)
      body == <<0, Len(d.w)>> \o d.w \o <<0, Len(blk)>> \o blk \o d.n
      s == Split(body)
      r == Run(body, <<>>)
      types == {d.a[k][2] : k \in 1..Len(d.a)}
      mpdup == \E i, j \in 1..Len(d.a) : i < j /\ d.a[i][2] = 14 /\ d.a[j][2] = 14
  IN /\ s.abort = "none" /\ s.withdrawn = d.w /\ s.attrs = blk /\ s.nlri = d.n
     /\ ~Walk(blk).overrun /\ Len(Walk(blk).items) = Len(d.a)
     /\ r.calls[1] = Call("wr", 0, 0, d.w)
     /\ IF mpdup
          THEN r.abort = "mpdup" /\ \A k \in 1..Len(r.calls) : r.calls[k].k # "nlri"
          ELSE /\ r.abort = "none"
               /\ r.calls[Len(r.calls)] = Call("nlri", 0, 0, d.n)
               /\ Len(r.calls) = 2 + Cardinality(types)    \* each type delivered exactly once
               /\ r.missing = (IF d.n # <<>> \/ 14 \in types THEN {1, 2} \ types ELSE {})

(* ---- attributes: success and error outcomes are mutually exclusive and total ---- *)
AttrDomain == [t : KnownTypes, f : {0, 64, 128, 192, 208}, v : Seqs({0, 1, 3}, 2) \cup {<<2, 1, 0, 0, 0, 7>>, <<0, 0, 0, 1>>}]
AttrLaw(d) ==
  /\ MustSucceed(d.t, d.f, d.v) <=> (FlagsOK(d.t, d.f) /\ ValueFault(d.t, d.v) = "none")
  /\ ~FlagsOK(d.t, d.f) => \A o \in ErrorOutcomes(d.t, d.f, d.v) : o[1] = "taw"

Domain == [k : {"wire"}, d : WireDomain] \cup [k : {"notif"}, d : NotifDomain] \cup [k : {"open"}, d : OpenDomain]
          \cup [k : {"pfx"}, d : PfxDomain] \cup [k : {"upd"}, d : UpdDomain] \cup [k : {"attr"}, d : AttrDomain]

Init == x \in Domain
Next == UNCHANGED x
Spec == Init /\ [][Next]_x

Law ==
  CASE x.k = "wire" -> WireLaw(x.d)
    [] x.k = "notif" -> NotifLaw(x.d)
    [] x.k = "open" -> OpenLaw(x.d)
    [] x.k = "pfx" -> PfxLaw(x.d)
    [] x.k = "upd" -> UpdLaw(x.d)
    [] x.k = "attr" -> AttrLaw(x.d)
=============================================================================
