---------------------------- MODULE CoreBGPTrace ----------------------------
(* Trace validation: is the recorded execution of the real corebgp code
   (stimulus -> events observed at quiescence, with virtual timestamps) a
   behaviour of CoreBGP.tla?  Internal steps are not logged; TLC infers them.
   Several scripts are concatenated, separated by "reset" lines.            *)
EXTENDS CoreBGP, Json

CONSTANT TraceFile

Trace == ndJsonDeserialize(TraceFile)

VARIABLES l,       \* next trace line
          target   \* time the current `advance` stimulus runs to

tvars == <<vars, l, target>>

Line == Trace[l]

---------------------------------------------------------------------------
(* matching a specification event against a logged one *)

IsSingleNotif(b) ==
  LET d == Deframe(b) IN
  /\ d.fault = "none" /\ d.rest = <<>> /\ Len(d.msgs) = 1
  /\ d.msgs[1].type = TypeNotification /\ NDecode(d.msgs[1].body).ok

NotifOf(b) == NDecode(Deframe(b).msgs[1].body)

MsgMatches(m, b) ==
  CASE m.k = "ka" -> b = Frame(TypeKeepalive, <<>>)
    [] m.k = "open" -> b = OpenMsg(OCfg(m.p), cfg[m.p].caps)
    [] m.k = "notif" -> b = NEncode(m.code, m.sub, m.data)
    [] m.k = "update" -> b = Frame(TypeUpdate, m.body)
    [] m.k = "refusal" -> IsSingleNotif(b) /\ Applies(NotifOf(b), m.body, OCfg(m.p))
    [] m.k = "refusalOrFsm" ->
         \/ b = NEncode(5, m.sub, <<1>>)
         \/ IsSingleNotif(b) /\ Applies(NotifOf(b), m.body, OCfg(m.p))

EvMatches(se, le) ==
  /\ se.e = le.e
  /\ se.t = le.t
  /\ CASE se.e \in {"w", "wfail"} -> se.c = le.c /\ MsgMatches(se.m, le.b)
       [] se.e \in {"lclose", "acc"} -> se.c = le.c
       [] se.e = "cb" ->
            /\ se.p = le.p /\ se.n = le.n
            /\ CASE se.n = "Update" -> se.k = le.k /\ se.m.b = le.b
                 [] se.n = "OnOpenMessage" -> se.m.rid = le.rid /\ se.m.caps = le.caps
                 [] se.n \in {"OnEstablished", "OnClose"} -> se.k = le.k
                 [] OTHER -> TRUE
       \* a dial goes to the configured port, from the configured local address (if any)
       [] se.e = "dial" -> se.p = le.p /\ se.k = le.k /\ le.c = cfg[se.p].port /\ le.r = cfg[se.p].localAddr
       [] se.e = "cbx" -> se.p = le.p /\ se.n = le.n /\ se.k = le.k
       [] se.e = "ret" ->
            /\ se.p = le.p /\ se.n = le.n /\ se.k = le.k
            /\ IF se.n = "listPeers"
                 THEN {le.rs[i] : i \in 1..Len(le.rs)} = se.r /\ Len(le.rs) = Cardinality(se.r)
                 ELSE se.r = le.r

(* `o` is explained by the first Len(o) logged events *)
PrefixMatches(o, evs) ==
  /\ Len(o) <= Len(evs)
  /\ \A i \in 1..Len(o) : EvMatches(o[i], evs[i])

---------------------------------------------------------------------------
ResetTo(c) ==
  /\ cfg' = c
  /\ srv' = InitSrv
  /\ calls' = << >>
  /\ pm' = [p \in DOMAIN c |-> NoPM]
  /\ fsm' = [p \in DOMAIN c |-> [d \in Dirs |-> NoFsm]]
  /\ conn' = << >>
  /\ dial' = [p \in DOMAIN c |-> NoDial]
  /\ now' = 0
  /\ out' = <<>>
  /\ gh' = [sess |-> [p \in DOMAIN c |-> "none"], nsess |-> [p \in DOMAIN c |-> 0],
            released |-> [p \in DOMAIN c |-> {}], ncb |-> [p \in DOMAIN c |-> [n \in CbNames \cup PmGateNames |-> 0]],
            bad |-> {}]
  /\ target' = 0

TraceInit ==
  /\ l = 2
  /\ Trace[1].k = "reset"
  /\ TLCSet(1, 2)
  /\ cfg = Trace[1].cfg
  /\ srv = InitSrv
  /\ calls = << >>
  /\ pm = [p \in DOMAIN cfg |-> NoPM]
  /\ fsm = [p \in DOMAIN cfg |-> [d \in Dirs |-> NoFsm]]
  /\ conn = << >>
  /\ dial = [p \in DOMAIN cfg |-> NoDial]
  /\ now = 0
  /\ out = <<>>
  /\ gh = [sess |-> [p \in DOMAIN cfg |-> "none"], nsess |-> [p \in DOMAIN cfg |-> 0],
           released |-> [p \in DOMAIN cfg |-> {}], ncb |-> [p \in DOMAIN cfg |-> [n \in CbNames \cup PmGateNames |-> 0]],
           bad |-> {}]
  /\ target = 0

AtLine == l <= Len(Trace)
Settled == Quiescent /\ now = target

TraceReset ==
  /\ AtLine /\ Line.k = "reset" /\ out = <<>>
  /\ ResetTo(Line.cfg)
  /\ l' = l + 1

(* events the receiver will extract from the bytes of a `send` stimulus *)
SendEvents(c, b) ==
  LET d == Deframe(conn[c].rbuf \o b)
      evs == [i \in 1..Len(d.msgs) |-> EvMsg(d.msgs[i].type, d.msgs[i].body)]
  IN [evs |-> IF d.fault = "none" THEN evs ELSE Append(evs, EvFault(FaultNotif(d))),
      rest |-> d.rest, dead |-> d.fault # "none"]

ApiOps == {"addPeer", "deletePeer", "getPeer", "listPeers", "serve", "close", "write"}

(* the observation line that closes the current group of stimuli *)
RECURSIVE ObsFrom(_)
ObsFrom(i) == IF i > Len(Trace) \/ Trace[i].k = "obs" THEN i ELSE ObsFrom(i + 1)
ObsLine == Trace[ObsFrom(l)]

(* A stimulus is applied at quiescence, except one flagged `racy`: it was
   issued right after the previous one without waiting.                    *)
TraceStim ==
  /\ AtLine /\ Line.k = "stim"
  /\ Line.racy \/ (Settled /\ out = <<>>)
  /\ l' = l + 1
  /\ LET s == Line IN
     CASE s.op \in ApiOps ->
            /\ EnvCall(s.id, s.op, s.peer, s.w, s.b) /\ UNCHANGED target
       [] s.op = "connect" -> EnvConnect(s.conn, s.src, s.dst) /\ UNCHANGED target
       [] s.op = "dialAccept" -> EnvDialAccept(s.peer, s.conn) /\ UNCHANGED target
       [] s.op = "dialRefuse" -> EnvDialRefuse(s.peer) /\ UNCHANGED target
       [] s.op = "send" ->
            LET se == SendEvents(s.conn, s.b) IN
            EnvSend(s.conn, se.evs, se.rest, se.dead) /\ UNCHANGED target
       [] s.op = "rclose" -> EnvRClose(s.conn) /\ UNCHANGED target
       [] s.op = "rreset" -> EnvReset(s.conn) /\ UNCHANGED target
       [] s.op = "stall" -> EnvStall(s.conn, TRUE) /\ UNCHANGED target
       [] s.op = "unstall" -> EnvStall(s.conn, FALSE) /\ UNCHANGED target
       [] s.op = "lisFail" -> EnvLisFail /\ UNCHANGED target
       [] s.op = "lisGate" -> EnvLisGate(TRUE) /\ UNCHANGED target
       [] s.op = "lisRelease" -> EnvLisGate(FALSE) /\ UNCHANGED target
       [] s.op = "yield" -> UNCHANGED <<vars, target>>
       [] s.op = "release" -> EnvRelease(s.peer, [n |-> s.call, k |-> s.w]) /\ UNCHANGED target
       [] s.op = "advance" -> target' = now + s.d /\ UNCHANGED vars
       [] s.op = "nop" -> UNCHANGED <<vars, target>>

(* an unlogged step of corebgp; what it emits must agree with the log so far *)
TraceInternal ==
  /\ AtLine /\ (Line.k = "obs" \/ (Line.k = "stim" /\ Line.racy))
  /\ Internal
  \* `out` grows by at most one event per step and the earlier ones were
  \* checked when they were appended: only the new one needs checking
  /\ \/ out' = out
     \/ /\ out' # out
        /\ Len(out') <= Len(ObsLine.ev)
        /\ EvMatches(out'[Len(out')], ObsLine.ev[Len(out')])
  /\ UNCHANGED <<l, target>>

TraceTime ==
  /\ AtLine /\ Line.k = "obs"
  /\ TimeStep(target)
  /\ UNCHANGED <<l, target>>

TraceObs ==
  /\ AtLine /\ Line.k = "obs" /\ Settled
  /\ Len(out) = Len(Line.ev)
  /\ now = Line.t
  /\ out' = <<>>
  /\ l' = l + 1
  /\ UNCHANGED <<cfg, srv, calls, pm, fsm, conn, dial, now, gh, target>>

TraceNext == TraceReset \/ TraceStim \/ TraceInternal \/ TraceTime \/ TraceObs

TraceSpec == TraceInit /\ [][TraceNext]_tvars

(* high-water mark of consumed lines (needs -workers 1) *)
HighWater == TLCSet(1, IF TLCGet(1) < l THEN l ELSE TLCGet(1))

TraceAccepted ==
  /\ (TLCGet(1) # Len(Trace) + 1) => Print(<<"HIGHWATER", TLCGet(1), Len(Trace)>>, TRUE)
  /\ TLCGet(1) = Len(Trace) + 1

TraceInv == GhostOK /\ AtMostOneEstablished /\ PmTable /\ StopComplete /\ HeldDownIsQuiet /\ PassiveNeverDials
=============================================================================
