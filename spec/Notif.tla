------------------------------- MODULE Notif -------------------------------
(* NOTIFICATION message codec, RFC 4271 section 4.5. *)
EXTENDS Integers, Sequences, Wire

Cease == 6

(* Body and complete message of a NOTIFICATION with the given fields. *)
NBody(code, sub, data) == <<code, sub>> \o data
NEncode(code, sub, data) == Frame(TypeNotification, NBody(code, sub, data))

(* Decoding a NOTIFICATION body; "short" when the fixed fields are missing. *)
NDecode(body) ==
  IF Len(body) < 2 THEN [ok |-> FALSE, code |-> 0, sub |-> 0, data |-> <<>>]
  ELSE [ok |-> TRUE, code |-> body[1], sub |-> body[2], data |-> SubSeq(body, 3, Len(body))]

(* Does a NOTIFICATION with this code, sent or received, damp the peer? *)
Damps(code) == code # Cease
=============================================================================
