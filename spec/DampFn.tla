------------------------------- MODULE DampFn -------------------------------
(* The hold-down ladder as a pure function (peer.updateStartupDelay): shared by
   CoreBGP.tla (operation `damp` of the peer manager) and by Damp.tla, where
   Apalache proves its invariants for unbounded time.                        *)
EXTENDS Integers

(* @type: (Int, Int, Int, Int, Int, Int, Int) => Int; *)
NextDelay(sd, lastErr, t, off, dmin, dmax, amnesia) ==
  LET d0 == IF lastErr # off /\ t - lastErr >= amnesia THEN 0 ELSE sd
      dbl == IF 2 * d0 < dmax THEN 2 * d0 ELSE dmax
  IN IF d0 > 0 THEN dbl ELSE dmin
=============================================================================
