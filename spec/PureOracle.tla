----------------------------- MODULE PureOracle -----------------------------
(* Evaluates recorded calls of corebgp's pure (codec / decoder) functions
   against the functional specification modules.  One state per recorded
   case; a mismatch prints its index.                                       *)
EXTENDS Integers, Sequences, FiniteSets, TLC, Json, Attrs, Prefix, Update

CONSTANT CaseFile

Cases == ndJsonDeserialize(CaseFile)

VARIABLE i
Init == i = 0
Next == i < Len(Cases) /\ i' = i + 1

---------------------------------------------------------------------------
AttrOK(c) ==
  LET r == c.r
      e == r.err
  IN
  /\ ~r.panic
  /\ r.acc = <<Optional(c.flags), Transitive(c.flags), Partial(c.flags), ExtendedLen(c.flags)>>
  /\ IF r.ok
       THEN /\ MustSucceed(c.type, c.flags, c.b)
            /\ r.val = Value(c.type, c.b) /\ r.val2 = Value2(c.type, c.b)
       ELSE /\ e.t \in {"taw", "ad"}
            /\ e.n.code = 3
            /\ <<e.t, e.n.sub>> \in ErrorOutcomes(c.type, c.flags, c.b)
            /\ e.acode = c.type

(* leaves of an error tree in pre-order (joins and wrappers flattened, nils dropped) *)
RECURSIVE Leaves(_)
LeavesOfKids(ks) ==
  LET RECURSIVE L(_)
      L(k) == IF k > Len(ks) THEN <<>> ELSE Leaves(ks[k]) \o L(k + 1)
  IN L(1)
Leaves(e) ==
  CASE e.t = "nil" -> <<>>
    [] e.t \in {"join", "wrap"} -> LeavesOfKids(e.kids)
    [] OTHER -> <<e>>

IsNotif(e, code, sub) == e.t = "notif" /\ e.n.code = code /\ e.n.sub = sub

PrefixOK(c) ==
  LET r == c.r
      v6 == c.entry \in {"mp6", "mp6ap"}
      ap == c.entry \in {"nlriap", "wdap", "mp6ap"}
      d == DecodePrefixes(c.b, v6, ap)
      sub == IF c.entry \in {"nlri", "nlriap"} THEN 10 ELSE 0
  IN
  /\ ~r.panic
  /\ IF d.ok
       THEN /\ r.err.t = "nil" /\ r.called
            /\ Len(r.list) = Len(d.list)
            /\ \A k \in 1..Len(d.list) :
                 /\ r.list[k].id = d.list[k].id /\ r.list[k].len = d.list[k].len
                 /\ r.list[k].addr = d.list[k].addr
       ELSE ~r.called /\ IsNotif(r.err, 3, sub)

(* expected leaves of the MP splitters' error: a flags conflict adds a
   treat-as-withdraw element (Attribute Flags Error), a value too short to
   hold the fixed fields is session-reset class (Attribute Length Error)    *)
MPErrOK(r, flags, fits) ==
  LET ls == Leaves(r.err)
      taws == SelectSeq(ls, LAMBDA e : e.t = "taw")
      nots == SelectSeq(ls, LAMBDA e : e.t = "notif")
  IN
  /\ Len(ls) = Len(taws) + Len(nots)
  /\ IF MPFlagsOK(flags) THEN taws = <<>>
       ELSE Len(taws) = 1 /\ taws[1].n.code = 3 /\ taws[1].n.sub = 4
  /\ IF fits THEN nots = <<>> ELSE Len(nots) = 1 /\ nots[1].n.code = 3 /\ nots[1].n.sub = 5

MPReachOK(c) ==
  LET r == c.r IN
  /\ ~r.panic
  /\ MPErrOK(r, c.flags, MPReachFits(c.b))
  /\ r.called = MPReachFits(c.b)
  /\ MPReachFits(c.b) =>
       LET m == MPReach(c.b) IN
       r.afi = m.afi /\ r.safi = m.safi /\ r.nh = m.nh /\ r.nlri = m.nlri

MPUnreachOK(c) ==
  LET r == c.r IN
  /\ ~r.panic
  /\ MPErrOK(r, c.flags, MPUnreachFits(c.b))
  /\ r.called = MPUnreachFits(c.b)
  /\ MPUnreachFits(c.b) =>
       LET m == MPUnreach(c.b) IN r.afi = m.afi /\ r.safi = m.safi /\ r.nlri = m.wd

V6NHOK(c) ==
  LET r == c.r IN
  /\ ~r.panic
  /\ IF V6NextHopsOK(c.b) THEN r.err.t = "nil" /\ r.list = V6NextHops(c.b)
     ELSE IsNotif(r.err, 3, 0) /\ r.list = <<>>

---------------------------------------------------------------------------
(* error trees (C17): UpdateNotificationFromErr *)
Generic == [code |-> 3, sub |-> 0, data |-> <<>>]
NoNotif == [code |-> -1, sub |-> 0, data |-> <<>>]
Fallback(e) == IF e.n.code = -1 THEN Generic ELSE e.n

FirstOf(ls, t) == LET x == SelectSeq(ls, LAMBDA e : e.t = t) IN IF x = <<>> THEN NoNotif ELSE Fallback(x[1])
HasT(ls, t) == \E k \in 1..Len(ls) : ls[k].t = t

(* severity: Notification > treat-as-withdraw > attribute-discard > other UpdateError > generic *)
FromErr(tree) ==
  IF tree.t = "nil" THEN NoNotif
  ELSE LET ls == Leaves(tree) IN
       CASE HasT(ls, "notif") -> FirstOf(ls, "notif")
         [] HasT(ls, "taw") -> FirstOf(ls, "taw")
         [] HasT(ls, "ad") -> FirstOf(ls, "ad")
         [] HasT(ls, "ue") -> FirstOf(ls, "ue")
         [] OTHER -> Generic

ErrTreeOK(c) == ~c.r.panic /\ c.r.notif = FromErr(c.r.tree)

(* UPDATE decoding (C16, C17) *)
ContainsNotif(reply) == HasT(Leaves(reply), "notif")
Stops(replies) == [j \in 1..Len(replies) |-> ContainsNotif(replies[j])]

(* the leaves the callbacks returned for the calls that were made *)
RECURSIVE ReplyLeaves(_, _, _)
ReplyLeaves(replies, k, n) ==
  IF k > n \/ k > Len(replies) THEN <<>> ELSE Leaves(replies[k]) \o ReplyLeaves(replies, k + 1, n)

(* remove the elements of exp from ls as an ordered subsequence *)
RECURSIVE Minus(_, _)
Minus(ls, exp) ==
  IF exp = <<>> THEN [ok |-> TRUE, rest |-> ls]
  ELSE IF ls = <<>> THEN [ok |-> FALSE, rest |-> <<>>]
  ELSE IF Head(ls) = Head(exp) THEN Minus(Tail(ls), Tail(exp))
  ELSE LET m == Minus(Tail(ls), exp) IN [ok |-> m.ok, rest |-> <<Head(ls)>> \o m.rest]

MissingLeaf(e, m) == e.t = "taw" /\ e.n.code = 3 /\ e.n.sub = 3 /\ e.n.data = <<m>>

UpdateOK(c) ==
  LET r == c.r
      x == Run(c.b, Stops(c.replies))
      ls == Leaves(r.err)
      expTheirs == ReplyLeaves(c.replies, 1, Len(x.calls))
      mm == Minus(ls, expTheirs)
      own == mm.rest                                        \* elements the decoder itself produced
      missLeaves == SelectSeq(own, LAMBDA e : e.t = "taw" /\ e.n.sub = 3 /\ e.n.code = 3)
      overLeaves == SelectSeq(own, LAMBDA e : e.t = "taw" /\ ~(e.n.sub = 3 /\ e.n.code = 3))
      notLeaves == SelectSeq(own, LAMBDA e : e.t = "notif")
  IN
  /\ ~r.panic
  /\ r.calls = x.calls                                     \* C16: exact partition, order, stop points
  /\ mm.ok                                                 \* every callback error is contained, in order
  /\ Len(own) = Len(missLeaves) + Len(overLeaves) + Len(notLeaves)
  /\ IF x.abort # "none"
       THEN Len(notLeaves) = 1 /\ notLeaves[1].n.code = 3 /\ notLeaves[1].n.sub \in {0, 1}
            /\ missLeaves = <<>> /\ overLeaves = <<>>
       ELSE /\ notLeaves = <<>>
            /\ (x.overrun <=> Len(overLeaves) >= 1)
            /\ \A k \in 1..Len(missLeaves) : \E m \in x.missing : MissingLeaf(missLeaves[k], m)
            /\ (x.missing # {} <=> missLeaves # <<>>)
  /\ (r.err.t = "nil" <=> ls = <<>>)
  /\ r.notif = FromErr(r.err)

CaseOK(c) ==
  CASE c.f = "attr" -> AttrOK(c)
    [] c.f = "update" -> UpdateOK(c)
    [] c.f = "errtree" -> ErrTreeOK(c)
    [] c.f = "prefix" -> PrefixOK(c)
    [] c.f = "mpreach" -> MPReachOK(c)
    [] c.f = "mpunreach" -> MPUnreachOK(c)
    [] c.f = "v6nh" -> V6NHOK(c)
    [] OTHER -> FALSE

Checked ==
  i >= 1 => (CaseOK(Cases[i]) \/ PrintT(<<"MISMATCH", i>>))

Spec == Init /\ [][Next]_i
=============================================================================
