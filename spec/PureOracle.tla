----------------------------- MODULE PureOracle -----------------------------
(* Evaluates recorded calls of corebgp's pure (codec / decoder) functions
   against the functional specification modules.  One state per recorded
   case; a mismatch prints its index.                                       *)
EXTENDS Integers, Sequences, FiniteSets, TLC, Json, Attrs, Prefix, Update, Open, Notif

CONSTANT CaseFile

Cases == ndJsonDeserialize(CaseFile)

VARIABLE i
Init == i = 0
Next == i < Len(Cases) /\ i' = i + 1

---------------------------------------------------------------------------
AttrOK(c) ==
  LET r == c.r
      e == r.err
  IN
  /\ ~r.panic
  /\ r.acc = <<Optional(c.flags), Transitive(c.flags), Partial(c.flags), ExtendedLen(c.flags)>>
  /\ IF r.ok
       THEN /\ MustSucceed(c.type, c.flags, c.b)
            /\ r.val = Value(c.type, c.b) /\ r.val2 = Value2(c.type, c.b)
       ELSE /\ e.t \in {"taw", "ad"}
            /\ e.n.code = 3
            /\ <<e.t, e.n.sub>> \in ErrorOutcomes(c.type, c.flags, c.b)
            /\ e.acode = c.type

(* leaves of an error tree in pre-order (joins and wrappers flattened, nils dropped) *)
RECURSIVE Leaves(_)
LeavesOfKids(ks) ==
  LET RECURSIVE L(_)
      L(k) == IF k > Len(ks) THEN <<>> ELSE Leaves(ks[k]) \o L(k + 1)
  IN L(1)
Leaves(e) ==
  CASE e.t = "nil" -> <<>>
    [] e.t \in {"join", "wrap"} -> LeavesOfKids(e.kids)
    [] OTHER -> <<e>>

IsNotif(e, code, sub) == e.t = "notif" /\ e.n.code = code /\ e.n.sub = sub

PrefixOK(c) ==
  LET r == c.r
      v6 == c.entry \in {"mp6", "mp6ap"}
      ap == c.entry \in {"nlriap", "wdap", "mp6ap"}
      d == DecodePrefixes(c.b, v6, ap)
      sub == IF c.entry \in {"nlri", "nlriap"} THEN 10 ELSE 0
  IN
  /\ ~r.panic
  /\ IF d.ok
       THEN /\ r.err.t = "nil" /\ r.called
            /\ Len(r.list) = Len(d.list)
            /\ \A k \in 1..Len(d.list) :
                 /\ r.list[k].id = d.list[k].id /\ r.list[k].len = d.list[k].len
                 /\ r.list[k].addr = d.list[k].addr
       ELSE ~r.called /\ IsNotif(r.err, 3, sub)

(* expected leaves of the MP splitters' error: a flags conflict adds a
   treat-as-withdraw element (Attribute Flags Error), a value too short to
   hold the fixed fields is session-reset class (Attribute Length Error)    *)
MPErrOK(r, flags, fits) ==
  LET ls == Leaves(r.err)
      taws == SelectSeq(ls, LAMBDA e : e.t = "taw")
      nots == SelectSeq(ls, LAMBDA e : e.t = "notif")
  IN
  /\ Len(ls) = Len(taws) + Len(nots)
  /\ IF MPFlagsOK(flags) THEN taws = <<>>
       ELSE Len(taws) = 1 /\ taws[1].n.code = 3 /\ taws[1].n.sub = 4
  /\ IF fits THEN nots = <<>> ELSE Len(nots) = 1 /\ nots[1].n.code = 3 /\ nots[1].n.sub = 5

MPReachOK(c) ==
  LET r == c.r IN
  /\ ~r.panic
  /\ MPErrOK(r, c.flags, MPReachFits(c.b))
  /\ r.called = MPReachFits(c.b)
  /\ MPReachFits(c.b) =>
       LET m == MPReach(c.b) IN
       r.afi = m.afi /\ r.safi = m.safi /\ r.nh = m.nh /\ r.nlri = m.nlri

MPUnreachOK(c) ==
  LET r == c.r IN
  /\ ~r.panic
  /\ MPErrOK(r, c.flags, MPUnreachFits(c.b))
  /\ r.called = MPUnreachFits(c.b)
  /\ MPUnreachFits(c.b) =>
       LET m == MPUnreach(c.b) IN r.afi = m.afi /\ r.safi = m.safi /\ r.nlri = m.wd

V6NHOK(c) ==
  LET r == c.r IN
  /\ ~r.panic
  /\ IF V6NextHopsOK(c.b) THEN r.err.t = "nil" /\ r.list = V6NextHops(c.b)
     ELSE IsNotif(r.err, 3, 0) /\ r.list = <<>>

---------------------------------------------------------------------------
(* error trees (C17): UpdateNotificationFromErr *)
Generic == [code |-> 3, sub |-> 0, data |-> <<>>]
NoNotif == [code |-> -1, sub |-> 0, data |-> <<>>]
Fallback(e) == IF e.n.code = -1 THEN Generic ELSE e.n

FirstOf(ls, t) == LET x == SelectSeq(ls, LAMBDA e : e.t = t) IN IF x = <<>> THEN NoNotif ELSE Fallback(x[1])
HasT(ls, t) == \E k \in 1..Len(ls) : ls[k].t = t

(* severity: Notification > treat-as-withdraw > attribute-discard > other UpdateError > generic *)
FromErr(tree) ==
  IF tree.t = "nil" THEN NoNotif
  ELSE LET ls == Leaves(tree) IN
       CASE HasT(ls, "notif") -> FirstOf(ls, "notif")
         [] HasT(ls, "taw") -> FirstOf(ls, "taw")
         [] HasT(ls, "ad") -> FirstOf(ls, "ad")
         [] HasT(ls, "ue") -> FirstOf(ls, "ue")
         [] OTHER -> Generic

ErrTreeOK(c) == ~c.r.panic /\ c.r.notif = FromErr(c.r.tree)

(* UPDATE decoding (C16, C17) *)
ContainsNotif(reply) == HasT(Leaves(reply), "notif")
Stops(replies) == [j \in 1..Len(replies) |-> ContainsNotif(replies[j])]

(* the leaves the callbacks returned for the calls that were made *)
RECURSIVE ReplyLeaves(_, _, _)
ReplyLeaves(replies, k, n) ==
  IF k > n \/ k > Len(replies) THEN <<>> ELSE Leaves(replies[k]) \o ReplyLeaves(replies, k + 1, n)

(* remove the elements of exp from ls as an ordered subsequence *)
RECURSIVE Minus(_, _)
Minus(ls, exp) ==
  IF exp = <<>> THEN [ok |-> TRUE, rest |-> ls]
  ELSE IF ls = <<>> THEN [ok |-> FALSE, rest |-> <<>>]
  ELSE IF Head(ls) = Head(exp) THEN Minus(Tail(ls), Tail(exp))
  ELSE LET m == Minus(Tail(ls), exp) IN [ok |-> m.ok, rest |-> <<Head(ls)>> \o m.rest]

MissingLeaf(e, m) == e.t = "taw" /\ e.n.code = 3 /\ e.n.sub = 3 /\ e.n.data = <<m>>

UpdateOK(c) ==
  LET r == c.r
      x == Run(c.b, Stops(c.replies))
      ls == Leaves(r.err)
      expTheirs == ReplyLeaves(c.replies, 1, Len(x.calls))
      mm == Minus(ls, expTheirs)
      own == mm.rest                                        \* elements the decoder itself produced
      missLeaves == SelectSeq(own, LAMBDA e : e.t = "taw" /\ e.n.sub = 3 /\ e.n.code = 3)
      overLeaves == SelectSeq(own, LAMBDA e : e.t = "taw" /\ ~(e.n.sub = 3 /\ e.n.code = 3))
      notLeaves == SelectSeq(own, LAMBDA e : e.t = "notif")
  IN
  /\ ~r.panic
  /\ r.calls = x.calls                                     \* C16: exact partition, order, stop points
  /\ mm.ok                                                 \* every callback error is contained, in order
  /\ Len(own) = Len(missLeaves) + Len(overLeaves) + Len(notLeaves)
  /\ IF x.abort # "none"
       THEN Len(notLeaves) = 1 /\ notLeaves[1].n.code = 3 /\ notLeaves[1].n.sub \in {0, 1}
            /\ missLeaves = <<>> /\ overLeaves = <<>>
       ELSE /\ notLeaves = <<>>
            /\ (x.overrun <=> Len(overLeaves) >= 1)
            /\ \A k \in 1..Len(missLeaves) : \E m \in x.missing : MissingLeaf(missLeaves[k], m)
            /\ (x.missing # {} <=> missLeaves # <<>>)
  /\ (r.err.t = "nil" <=> ls = <<>>)
  /\ r.notif = FromErr(r.err)

---------------------------------------------------------------------------
(* OPEN / NOTIFICATION / capability codecs (C15), OPEN validation (C02),
   OPEN construction (C14), framing (C08) *)
NRec(code, sub, data) == [code |-> code, sub |-> sub, data |-> data]

NotifCodecOK(c) ==
  /\ ~c.r.panic
  /\ c.r.enc = NEncode(c.code, c.sub, c.data)
  /\ c.r.dec.ok /\ c.r.dec.n = NRec(c.code, c.sub, c.data)

NotifDecOK(c) ==
  LET d == NDecode(c.b) IN
  /\ ~c.r.panic
  /\ c.r.dec.ok = d.ok
  /\ d.ok => c.r.dec.n = NRec(d.code, d.sub, d.data) /\ c.r.reenc = Frame(TypeNotification, c.b)

ViewMatches(v, b) ==
  /\ v.version = Version(b) /\ v.as2 = AS2(b) /\ v.hold = HoldTime(b) /\ v.id = BGPId(b)
  /\ v.params = ParamsCaps(b)

StructRefusalOK(e, b) ==
  e.kind = "notif" /\ \E f \in StructFaults(b) : NotifFits(e.n, f, b)

OpenDecOK(c) ==
  LET r == c.r IN
  /\ ~r.panic
  /\ r.ok = StructurallySound(c.b)                 \* strict: accepts exactly the structurally sound bodies
  /\ IF r.ok THEN ViewMatches(r.view, c.b) /\ r.reenc = Frame(TypeOpen, c.b)
             ELSE StructRefusalOK(r.e, c.b)

RECURSIVE ParamsBytes(_, _)
ParamsBytes(ps, k) ==
  IF k > Len(ps) THEN <<>>
  ELSE LET cb == CapsBytes(ps[k], 1) IN <<ParamCaps, Len(cb)>> \o cb \o ParamsBytes(ps, k + 1)

BodyOfView(v) ==
  LET pb == ParamsBytes(v.params, 1) IN
  <<v.version>> \o U16Bytes(v.as2) \o U16Bytes(v.hold) \o v.id \o <<Len(pb)>> \o pb

OpenEncOK(c) ==
  /\ ~c.r.panic
  /\ c.r.enc = Frame(TypeOpen, BodyOfView(c.view))
  /\ c.r.ok /\ c.r.view = c.view                  \* decode(encode(x)) = x

OpenValOK(c) ==
  LET r == c.r IN
  /\ ~r.panic
  /\ r.decoded = StructurallySound(c.b)
  /\ IF r.ok
       THEN /\ MayAccept(c.b, c.cfg)
            /\ r.caps = Carried(c.b) /\ r.view.id = BGPId(c.b) /\ r.view.hold = HoldTime(c.b)
       ELSE /\ MayRefuse(c.b, c.cfg)
            /\ r.e.kind = "notif" /\ Applies(r.e.n, c.b, c.cfg)

NewOpenOK(c) ==
  /\ ~c.r.panic
  /\ c.r.ok = Representable(c.cfg, c.caps)
  /\ c.r.ok => c.r.b = OpenMsg(c.cfg, c.caps)

TupleOctetOK(v) == v \in 1..3
AddPathWellFormed(b) ==
  Len(b) > 0 /\ Len(b) % 4 = 0 /\ \A k \in 1..(Len(b) \div 4) : TupleOctetOK(b[4 * k])
AddPathOK(c) ==
  LET r == c.r IN
  /\ ~r.panic
  /\ r.ok = AddPathWellFormed(c.b)
  /\ r.ok =>
       /\ Len(r.tuples) = Len(c.b) \div 4
       /\ \A k \in 1..Len(r.tuples) :
            LET t == r.tuples[k]
                o == 4 * (k - 1)
            IN /\ t.afi = c.b[o + 1] * 256 + c.b[o + 2] /\ t.safi = c.b[o + 3]
               /\ t.tx = (c.b[o + 4] \in {2, 3}) /\ t.rx = (c.b[o + 4] \in {1, 3})
       /\ r.reenc = c.b

AddPathEncOK(c) ==
  LET one == <<c.afi \div 256, c.afi % 256, c.safi, (IF c.tx THEN 2 ELSE 0) + (IF c.rx THEN 1 ELSE 0)>> IN
  c.r.one = one /\ c.r.code = 69 /\ c.r.val = one \o one

MPCapOK(c) == c.r.code = 1 /\ c.r.val = <<c.afi \div 256, c.afi % 256, 0, c.safi>>

(* the reader: messages delivered in order up to the first faulty one *)
RECURSIVE DeliveredOK(_, _, _, _)
DeliveredOK(ms, got, k, endrec) ==
  \* ms: messages framing extracts; got: what the reader delivered; k: position
  IF k > Len(ms) THEN [ok |-> Len(got) = k - 1, stopped |-> FALSE]
  ELSE LET m == ms[k] IN
    IF m.type = TypeOpen /\ ~StructurallySound(m.body)
      THEN [ok |-> Len(got) = k - 1 /\ StructRefusalOK(endrec, m.body), stopped |-> TRUE]
    ELSE IF m.type = TypeNotification /\ Len(m.body) < 2
      THEN [ok |-> Len(got) = k - 1 /\ endrec.kind = "other", stopped |-> TRUE]
    ELSE IF Len(got) < k THEN [ok |-> FALSE, stopped |-> TRUE]
    ELSE IF /\ got[k].type = m.type
            /\ (m.type = TypeUpdate => got[k].body = m.body)
            /\ (m.type = TypeNotification =>
                   got[k].n = NRec(m.body[1], m.body[2], SubSeq(m.body, 3, Len(m.body))))
      THEN DeliveredOK(ms, got, k + 1, endrec)
      ELSE [ok |-> FALSE, stopped |-> TRUE]

DeframeOK(c) ==
  LET r == c.r
      d == Deframe(c.b)
      x == DeliveredOK(d.msgs, r.msgs, 1, r.end)
  IN
  /\ ~r.panic
  /\ x.ok
  /\ ~x.stopped =>
       IF d.fault = "none" THEN r.end.kind = "eof"
       ELSE r.end.kind = "notif" /\ r.end.n = FaultNotif(d)

---------------------------------------------------------------------------
(* AddPeer configuration validity and NewServer router ids (C20) *)
Family(k) == IF k = "v4" THEN 4 ELSE 6       \* an IPv4-mapped IPv6 address is an IPv6 address
ValidOptions(c) == (c.hold = 0 \/ c.hold >= 3) /\ c.port \in 1..65535
ValidConfig(c) ==
  /\ c.remote # "invalid"
  /\ c.local = "none" \/ Family(c.local) = Family(c.remote)
  /\ ~c.las0 /\ ~c.ras0

AddPeerOK(c) ==
  LET valid == ValidOptions(c) /\ ValidConfig(c) IN
  /\ ~c.r.panic
  /\ c.r.ok = valid
  /\ c.r.listed = IF valid THEN 1 ELSE 0             \* a rejected configuration has no side effect
  /\ c.r.again = IF valid THEN "exists" ELSE "invalid"

NewServerOK(c) == c.r.ok = (c.id = "v4")

CaseOK(c) ==
  CASE c.f = "attr" -> AttrOK(c)
    [] c.f = "addpeer" -> AddPeerOK(c)
    [] c.f = "newserver" -> NewServerOK(c)
    [] c.f = "notif" -> NotifCodecOK(c)
    [] c.f = "notifdec" -> NotifDecOK(c)
    [] c.f = "opendec" -> OpenDecOK(c)
    [] c.f = "openenc" -> OpenEncOK(c)
    [] c.f = "openval" -> OpenValOK(c)
    [] c.f = "newopen" -> NewOpenOK(c)
    [] c.f = "addpath" -> AddPathOK(c)
    [] c.f = "addpathenc" -> AddPathEncOK(c)
    [] c.f = "mpcap" -> MPCapOK(c)
    [] c.f = "deframe" -> DeframeOK(c)
    [] c.f = "nopanic" -> ~c.r.panic
    [] c.f = "update" -> UpdateOK(c)
    [] c.f = "errtree" -> ErrTreeOK(c)
    [] c.f = "prefix" -> PrefixOK(c)
    [] c.f = "mpreach" -> MPReachOK(c)
    [] c.f = "mpunreach" -> MPUnreachOK(c)
    [] c.f = "v6nh" -> V6NHOK(c)
    [] OTHER -> FALSE

Checked ==
  i >= 1 => (CaseOK(Cases[i]) \/ PrintT(<<"MISMATCH", i>>))

Spec == Init /\ [][Next]_i
=============================================================================
