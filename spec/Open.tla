------------------------------- MODULE Open -------------------------------
(* OPEN message: structure (RFC 4271 4.2, RFC 5492), acceptability
   (RFC 4271 6.2, RFC 6793, RFC 6286) and construction.  Written from the RFCs
   and the property statements C02 / C14 / C15, not from the Go code.

   A capability is a record [code, val]; a configuration is a record
   [localAS, remoteAS, localID, hold] (hold = locally configured seconds).
   32-bit quantities (AS numbers, BGP identifiers) are 4-octet tuples in
   network order, because TLC integers are 32-bit signed.                    *)
EXTENDS Integers, Sequences, Wire

ASTrans == 23456
ParamCaps == 2
CapFourOctetAS == 65

Cap(code, val) == [code |-> code, val |-> val]
CapBytes(c) == <<c.code, Len(c.val)>> \o c.val
FourOctetCap(as) == Cap(CapFourOctetAS, as)
AS4Of2(n) == <<0, 0, n \div 256, n % 256>>
FitsTwoOctets(as) == as[1] = 0 /\ as[2] = 0

(* lexicographic order on 4-octet tuples = numeric order *)
Less4(x, y) ==
  \E k \in 1..4 : x[k] < y[k] /\ \A j \in 1..(k - 1) : x[j] = y[j]

---------------------------------------------------------------------------
(* Structure *)

(* TLVs(b): walk a sequence of (type, length, value) triples with 1-octet
   type and length.  Returns [items, trunc]: the complete triples in order
   and whether the walk ended inside a triple (fewer than 2 octets left for a
   header, or a length running past the end).                                *)
RECURSIVE TLVsFrom(_, _, _)
TLVsFrom(b, i, acc) ==
  IF i > Len(b) THEN [items |-> acc, trunc |-> FALSE]
  ELSE IF i + 1 > Len(b) THEN [items |-> acc, trunc |-> TRUE]
  ELSE LET n == b[i + 1] IN
    IF i + 1 + n > Len(b) THEN [items |-> acc, trunc |-> TRUE]
    ELSE TLVsFrom(b, i + 2 + n, Append(acc, [type |-> b[i], val |-> SubSeq(b, i + 2, i + 1 + n)]))
TLVs(b) == TLVsFrom(b, 1, <<>>)

HasFixed(body) == Len(body) >= 10
Version(body) == body[1]
AS2(body) == U16(body[2], body[3])
HoldTime(body) == U16(body[4], body[5])
BGPId(body) == SubSeq(body, 6, 9)
OptLen(body) == body[10]
ParamBytes(body) == SubSeq(body, 11, Len(body))

OptLenConsistent(body) == OptLen(body) = Len(body) - 10

Params(body) == TLVs(ParamBytes(body))

(* The capabilities carried, in wire order, across all capability
   parameters.  Only meaningful when ListWellFormed(body).                  *)
RECURSIVE CapsOfParams(_, _)
CapsOfParams(ps, k) ==
  IF k > Len(ps) THEN <<>>
  ELSE IF ps[k].type = ParamCaps
    THEN LET t == TLVs(ps[k].val).items IN
         [j \in 1..Len(t) |-> Cap(t[j].type, t[j].val)] \o CapsOfParams(ps, k + 1)
    ELSE CapsOfParams(ps, k + 1)
Carried(body) == CapsOfParams(Params(body).items, 1)

(* Structural fault classes present in the parameter list. *)
ListTruncated(body) ==
  \/ Params(body).trunc
  \/ \E k \in 1..Len(Params(body).items) :
       LET p == Params(body).items[k] IN
       p.type = ParamCaps /\ (p.val = <<>> \/ TLVs(p.val).trunc)
ListEmpty(body) == ParamBytes(body) = <<>>
ListUnknownParam(body) ==
  \E k \in 1..Len(Params(body).items) : Params(body).items[k].type # ParamCaps

(* Well-formed, non-empty capabilities parameter list (C02's wording). *)
ListWellFormed(body) ==
  /\ OptLenConsistent(body) /\ ~ListEmpty(body)
  /\ ~ListTruncated(body) /\ ~ListUnknownParam(body)

---------------------------------------------------------------------------
(* Acceptability: the set of fault classes actually present in an OPEN body,
   for a peer configuration.                                                *)
IsMulticast(id) == id[1] \in 224..239

FourOctetCaps(body) == SelectSeq(Carried(body), LAMBDA c : c.code = CapFourOctetAS)

GoodFourOctetCap(c, cfg) == c.val = cfg.remoteAS

FaultClasses(body, cfg) ==
  IF ~HasFixed(body) THEN {"short"}
  ELSE
    LET fixed ==
          (IF Version(body) # 4 THEN {"version"} ELSE {})
          \cup (IF AS2(body) # ASTrans /\ AS4Of2(AS2(body)) # cfg.remoteAS THEN {"as"} ELSE {})
          \cup (IF HoldTime(body) \in {1, 2} THEN {"hold"} ELSE {})
          \cup (IF IsMulticast(BGPId(body)) THEN {"id"} ELSE {})
          \cup (IF BGPId(body) = cfg.localID /\ cfg.localAS = cfg.remoteAS THEN {"id"} ELSE {})
        struct ==
          IF ~OptLenConsistent(body) THEN {"optlen"}
          ELSE (IF ListEmpty(body) THEN {"emptylist"} ELSE {})
               \cup (IF ListTruncated(body) THEN {"trunc"} ELSE {})
               \cup (IF ListUnknownParam(body) THEN {"unknownparam"} ELSE {})
        capsKnown == OptLenConsistent(body) /\ ~ListTruncated(body)
        four == IF capsKnown THEN FourOctetCaps(body) ELSE <<>>
        caps ==
          IF ~capsKnown THEN {}
          ELSE (IF four = <<>> THEN {"nocap4"} ELSE {})
               \cup (IF \E k \in 1..Len(four) : Len(four[k].val) # 4 THEN {"cap4len"} ELSE {})
               \cup (IF \E k \in 1..Len(four) :
                          Len(four[k].val) = 4 /\ ~GoodFourOctetCap(four[k], cfg)
                     THEN {"cap4as"} ELSE {})
    IN fixed \cup struct \cup caps

(* structural fault classes only (what a decoder can complain about without a configuration) *)
StructFaults(body) ==
  IF ~HasFixed(body) THEN {"short"}
  ELSE IF ~OptLenConsistent(body) THEN {"optlen"}
  ELSE (IF ListEmpty(body) THEN {"emptylist"} ELSE {})
       \cup (IF ListTruncated(body) THEN {"trunc"} ELSE {})
       \cup (IF ListUnknownParam(body) THEN {"unknownparam"} ELSE {})

(* per capabilities parameter, the capabilities it carries *)
ParamCapsOf(p) == LET t == TLVs(p.val).items IN [j \in 1..Len(t) |-> Cap(t[j].type, t[j].val)]
ParamsCaps(body) ==
  LET ps == SelectSeq(Params(body).items, LAMBDA p : p.type = ParamCaps) IN
  [k \in 1..Len(ps) |-> ParamCapsOf(ps[k])]

(* An OPEN that must be accepted. *)
Acceptable(body, cfg) == FaultClasses(body, cfg) = {}

(* An OPEN whose only blemish is a conflicting duplicate 4-octet-AS
   capability next to a good one: the RFCs do not say which wins, either
   reaction is allowed.                                                     *)
Ambiguous(body, cfg) ==
  /\ FaultClasses(body, cfg) # {}
  /\ FaultClasses(body, cfg) \subseteq {"cap4len", "cap4as"}
  /\ \E k \in 1..Len(FourOctetCaps(body)) : GoodFourOctetCap(FourOctetCaps(body)[k], cfg)

MayAccept(body, cfg) == Acceptable(body, cfg) \/ Ambiguous(body, cfg)
MayRefuse(body, cfg) == ~Acceptable(body, cfg)

IsFourOctetCapBytes(d) == Len(d) = 6 /\ d[1] = CapFourOctetAS /\ d[2] = 4

(* Does NOTIFICATION n = [code, sub, data] apply to fault class f?  Data is
   constrained only where C02 constrains it.                                *)
NotifFits(n, f, body) ==
  CASE f = "short"        -> n.code = 1 /\ n.sub = 2
    [] f = "version"      -> n.code = 2 /\ n.sub = 1 /\ n.data = <<0, 4>>
    [] f = "as"           -> n.code = 2 /\ n.sub = 2
    [] f = "hold"         -> n.code = 2 /\ n.sub = 6
    [] f = "id"           -> n.code = 2 /\ n.sub = 3
    [] f = "optlen"       -> n.code = 2 /\ n.sub = 0
    [] f = "emptylist"    -> n.code = 2 /\ n.sub = 0
    [] f = "trunc"        -> n.code = 2 /\ n.sub = 0
    [] f = "unknownparam" -> n.code = 2 /\ n.sub = 4
    [] f = "nocap4"       -> \/ n.code = 2 /\ n.sub = 7 /\ IsFourOctetCapBytes(n.data)
                             \/ n.code = 2 /\ n.sub = 2 /\ AS2(body) = ASTrans
    [] f = "cap4len"      -> n.code = 2 /\ n.sub \in {0, 2, 7}
    [] f = "cap4as"       -> n.code = 2 /\ n.sub = 2

(* n is a correct refusal of this OPEN. *)
Applies(n, body, cfg) == \E f \in FaultClasses(body, cfg) : NotifFits(n, f, body)

(* Can the receiver tell the message is an OPEN with intact structure?  (Used
   for OPENs arriving outside OpenSent, where RFC 6608 asks for an FSM error
   but a structural complaint is equally truthful.)                         *)
StructurallySound(body) ==
  HasFixed(body) /\ OptLenConsistent(body) /\ ~ListEmpty(body)
  /\ ~ListTruncated(body) /\ ~ListUnknownParam(body)

(* Hold time in force (seconds). *)
Negotiated(localHold, body) == IF localHold < HoldTime(body) THEN localHold ELSE HoldTime(body)

---------------------------------------------------------------------------
(* Construction: the OPEN a speaker with configuration cfg and plugin
   capabilities pcaps (a sequence of capabilities) must send (C14).         *)
RECURSIVE CapsBytes(_, _)
CapsBytes(cs, k) == IF k > Len(cs) THEN <<>> ELSE CapBytes(cs[k]) \o CapsBytes(cs, k + 1)

OwnCaps(cfg, pcaps) ==
  <<FourOctetCap(cfg.localAS)>> \o SelectSeq(pcaps, LAMBDA c : c.code # CapFourOctetAS)

Representable(cfg, pcaps) ==
  /\ \A k \in 1..Len(pcaps) : pcaps[k].code = CapFourOctetAS \/ Len(pcaps[k].val) <= 255
  /\ Len(CapsBytes(OwnCaps(cfg, pcaps), 1)) <= 253

OpenBody(cfg, pcaps) ==
  LET cb == CapsBytes(OwnCaps(cfg, pcaps), 1)
      as2 == IF FitsTwoOctets(cfg.localAS) THEN <<cfg.localAS[3], cfg.localAS[4]>>
                                          ELSE U16Bytes(ASTrans)
  IN <<4>> \o as2 \o U16Bytes(cfg.hold) \o cfg.localID
     \o <<Len(cb) + 2, ParamCaps, Len(cb)>> \o cb

OpenMsg(cfg, pcaps) == Frame(TypeOpen, OpenBody(cfg, pcaps))
=============================================================================
