"""Turn scripts + bubble-harness output into the ndjson trace CoreBGPTrace.tla reads."""
import ipaddress
import json

API_OPS = {"addPeer", "deletePeer", "getPeer", "listPeers", "serve", "close", "write"}


def b4(v):
    return [(v >> 24) & 0xFF, (v >> 16) & 0xFF, (v >> 8) & 0xFF, v & 0xFF]


def canon(host):
    if host == "":
        return ""
    try:
        a = ipaddress.ip_address(host.split("%")[0])
        if a.version == 6 and a.ipv4_mapped is not None and "%" not in host:
            a = a.ipv4_mapped          # what net.TCPAddr.String() reports for a dual-stack socket
        return a.compressed + ("%" + host.split("%")[1] if "%" in host else "")
    except ValueError:
        return "?" + host


def host_of(hostport):
    if hostport.startswith("["):
        return canon(hostport[1:hostport.index("]")])
    if hostport.count(":") == 1:
        return canon(hostport.rsplit(":", 1)[0])
    return canon(hostport)


def notif_rec(n):
    if n is None:
        return {"code": -1, "sub": 0, "data": []}
    return {"code": n["code"], "sub": n["sub"], "data": list(n.get("data") or [])}


def dense(m, conv, empty):
    """{"1": x, "3": y} -> [conv(x), empty, conv(y)]"""
    if not m:
        return []
    hi = max(int(k) for k in m)
    return [conv(m[str(i)]) if str(i) in m else empty for i in range(1, hi + 1)]


def peer_cfg(script, p):
    rid = int(ipaddress.IPv4Address(script["routerID"]))
    return {
        "localAS": b4(p["localAS"]), "remoteAS": b4(p["remoteAS"]), "localID": b4(rid),
        "hold": p["hold"], "idleHold": p["idleHold"], "connRetry": p["connRetry"],
        "passive": bool(p["passive"]), "localAddr": canon(p["localAddr"]),
        "remote": canon(p["remote"]),
        "port": str(p.get("port") or 179),
        "caps": [{"code": c["code"], "val": list(c["val"])} for c in p["caps"]],
        "openReply": notif_rec(p.get("openReply")),
        "noHandler": bool(p.get("noHandler")),
        "handlerReplies": dense(p.get("handlerReplies"), notif_rec, notif_rec(None)),
        "estWrites": [list(b) for b in p.get("estWrites") or []],
        "handlerWrites": dense(p.get("handlerWrites"), lambda bs: [list(b) for b in bs], []),
        "gates": [{"n": g.split("#")[0], "k": int(g.split("#")[1])} for g in (p.get("gates") or [])],
    }


def line(k, **kw):
    d = {"k": k, "cfg": 0, "op": "", "id": "", "peer": "", "conn": "", "src": "", "dst": "",
         "b": [], "d": 0, "w": 0, "t": 0, "ev": [], "sid": "", "racy": False, "call": ""}
    d.update(kw)
    return d


def norm_event(e):
    rid = [0, 0, 0, 0]
    k = e["k"]
    if e["e"] == "cb" and e["n"] == "OnOpenMessage":
        rid = b4(k) if k >= 0 else [255, 255, 255, 255, 255]
        k = 0
    rs = []
    if e["e"] == "ret" and e["n"] == "listPeers":
        rs = [x for x in e["r"].split(",") if x]
    # a dial event carries the port (c) and the local address (r) the dialer was asked to use
    return {"e": e["e"], "p": e["p"], "c": e["c"], "n": e["n"], "k": k,
            "b": e["b"], "r": canon(e["r"]) if e["e"] == "dial" and e["r"] else e["r"], "rs": rs,
            "caps": [{"code": c["code"], "val": list(c["val"])} for c in e["caps"]],
            "rid": rid, "t": e["t"]}


def stim_lines(script, i, st):
    if st["op"] == "multi":
        out = []
        for j, sub in enumerate(st["multi"]):
            ln = stim_line(script, "%d_%d" % (i, j), sub)
            ln["racy"] = j > 0
            out.append(ln)
        return out
    return [stim_line(script, i, st)]


def stim_line(script, i, st):
    op = st["op"]
    kw = dict(op=op, peer=st["peer"], conn=st["conn"], b=list(st["b"]), d=st["d"], w=st["w"],
              sid=script["id"], call=st.get("call", ""))
    if op in API_OPS:
        kw["id"] = "a%s" % i
    if op == "connect":
        kw["src"] = host_of(st["src"])
        kw["dst"] = host_of(st["dst"])
    return line("stim", **kw)


def build(script, obs_lines):
    """obs_lines: the harness 'obs' records of this script, in order (incl. final i=-1).
    Returns the list of trace lines (dicts)."""
    out = [line("reset", cfg={p["name"]: peer_cfg(script, p) for p in script["peers"]},
                sid=script["id"])]
    closed = False
    byi = {o["i"]: o for o in obs_lines}
    # connections the fake dialer disposed of itself (offered to a dial whose context was already
    # cancelled): they never reached corebgp, so every stimulus on them is a no-op for the spec
    void = set()
    for o in obs_lines:
        void.update(o.get("void") or [])
    for i, st in enumerate(script["steps"]):
        if i not in byi:
            break
        for ln in stim_lines(script, i, st):
            if ln["conn"] and ln["conn"] in void:
                ln = line("stim", op="nop", sid=script["id"], racy=ln["racy"])
            out.append(ln)
        if st["op"] == "close" or any(x["op"] == "close" for x in st.get("multi") or []):
            closed = True
        o = byi[i]
        out.append(line("obs", t=o["t"], ev=[norm_event(e) for e in o["ev"]], sid=script["id"]))
    if -1 in byi and len(byi) == len(script["steps"]) + 1:
        o = byi[-1]
        # the epilogue lets every connection be read again, then closes the server, without waiting in between
        stalled = []
        for st in script["steps"]:
            for x in ([st] + list(st.get("multi") or [])):
                if x["op"] == "stall" and x["conn"] not in stalled:
                    stalled.append(x["conn"])
                elif x["op"] == "unstall" and x["conn"] in stalled:
                    stalled.remove(x["conn"])
        stalled = [c for c in stalled if c not in void]
        for j, c in enumerate(stalled):
            out.append(line("stim", op="unstall", conn=c, sid=script["id"], racy=j > 0))
        if closed:
            out.append(line("stim", op="nop", sid=script["id"], racy=bool(stalled)))
        else:
            out.append(line("stim", op="close", id="afin", sid=script["id"], racy=bool(stalled)))
        out.append(line("obs", t=o["t"], ev=[norm_event(e) for e in o["ev"]], sid=script["id"]))
    return out


def parse_harness(path):
    """-> {script id: {"obs": [...], "end": {...} or None}} in file order"""
    res = {}
    cur = None
    with open(path) as f:
        for ln in f:
            ln = ln.strip()
            if not ln:
                continue
            try:
                d = json.loads(ln)
            except json.JSONDecodeError:
                continue  # torn last line of a crashed run
            if d["k"] == "begin":
                cur = res.setdefault(d["id"], {"obs": [], "end": None})
            elif d["k"] == "obs" and cur is not None:
                cur["obs"].append(d)
            elif d["k"] == "end":
                res.setdefault(d["id"], {"obs": [], "end": None})["end"] = d
                cur = None
    return res
