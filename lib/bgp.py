"""Builders for BGP wire messages (script generation side only; the oracle is
the TLA+ specification, never this file)."""

MARKER = [0xFF] * 16
U = 3  # time units per millisecond


def sec(s):
    return int(round(s * 1000 * U))


def frame(mtype, body, length=None, marker=None):
    n = 19 + len(body) if length is None else length
    return list(marker or MARKER) + [(n >> 8) & 0xFF, n & 0xFF, mtype] + list(body)


def u16(v):
    return [(v >> 8) & 0xFF, v & 0xFF]


def u32(v):
    return [(v >> 24) & 0xFF, (v >> 16) & 0xFF, (v >> 8) & 0xFF, v & 0xFF]


def cap(code, val):
    return [code, len(val) & 0xFF] + list(val)


def cap4(asn):
    return cap(65, u32(asn))


def open_body(asn, hold, bgpid, caps=None, version=4, as2=None, params=None):
    """caps: list of encoded capability byte lists (put in one parameter);
    params: raw optional-parameter bytes (overrides caps)."""
    if as2 is None:
        as2 = asn if asn <= 65535 else 23456
    if params is None:
        if caps is None:
            caps = [cap4(asn)]
        cb = [b for c in caps for b in c]
        params = [2, len(cb) & 0xFF] + cb if cb or caps == [] else []
    return [version] + u16(as2) + u16(hold) + u32(bgpid) + [len(params) & 0xFF] + list(params)


def open_msg(*a, **kw):
    return frame(1, open_body(*a, **kw))


def keepalive():
    return frame(4, [])


def update(body):
    return frame(2, body)


def notification(code, sub, data=()):
    return frame(3, [code, sub] + list(data))


def ip4(s):
    a = [int(x) for x in s.split(".")]
    return (a[0] << 24) | (a[1] << 16) | (a[2] << 8) | a[3]


def peer(name="p1", remote="10.0.0.2", localAS=65001, remoteAS=65002, hold=90,
         idleHold=sec(5), connRetry=sec(5), passive=False, localAddr="", port=179,
         caps=(), openReply=None, noHandler=False, handlerReplies=None,
         estWrites=(), handlerWrites=None, remoteID="10.0.0.2", gates=()):
    return {"name": name, "remote": remote, "localAS": localAS, "remoteAS": remoteAS,
            "hold": hold, "idleHold": idleHold, "connRetry": connRetry, "passive": passive,
            "localAddr": localAddr, "port": port,
            "caps": [{"code": c, "val": list(v)} for c, v in caps],
            "openReply": openReply, "noHandler": noHandler,
            "handlerReplies": handlerReplies or {}, "estWrites": [list(b) for b in estWrites],
            "handlerWrites": handlerWrites or {}, "gates": list(gates)}


def step(op, **kw):
    d = {"op": op, "peer": "", "conn": "", "src": "", "dst": "", "b": [], "chunks": [],
         "d": 0, "w": 0, "call": "", "addr": "", "multi": [], "lis": 0}
    d.update(kw)
    return d


def script(sid, peers, steps, routerID="10.0.0.1", listeners=None):
    return {"id": sid, "routerID": routerID, "peers": peers, "steps": steps, "listeners": listeners or []}
