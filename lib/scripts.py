"""Script builders and script families for the bubble harness."""
import itertools
import random

from bgp import (sec, frame, open_msg, open_body, keepalive, update, notification, ip4, peer,
                 step, script, cap, cap4, u16, u32, U)


class Sb:
    """Fluent builder of one script."""

    def __init__(self, sid, peers=None, routerID="10.0.0.1"):
        self.sid = sid
        self.peers = peers if peers is not None else [peer()]
        self.routerID = routerID
        self.steps = []
        self.n = 0
        self.tags = set()

    def P(self, name):
        return next(p for p in self.peers if p["name"] == name)

    def add(self, op, **kw):
        self.steps.append(step(op, **kw))
        return self

    def start(self, serve_first=False):
        if serve_first:
            self.add("serve")
        for p in self.peers:
            self.add("addPeer", peer=p["name"])
        if not serve_first:
            self.add("serve")
        return self

    def newconn(self):
        self.n += 1
        return "c%d" % self.n

    def dial_ok(self, pn="p1"):
        c = self.newconn()
        self.add("dialAccept", peer=pn, conn=c)
        return c

    def dial_refuse(self, pn="p1"):
        return self.add("dialRefuse", peer=pn)

    def connect(self, pn="p1", src=None, dst="10.0.0.1:179"):
        c = self.newconn()
        self.add("connect", conn=c, src=src or (self.P(pn)["remote"] + ":40000"), dst=dst)
        return c

    def send(self, c, b, chunks=()):
        return self.add("send", conn=c, b=list(b), chunks=list(chunks))

    def open(self, c, pn="p1", rid="10.0.0.2", hold=90, **kw):
        p = self.P(pn)
        return self.send(c, open_msg(p["remoteAS"], hold, ip4(rid), **kw))

    def ka(self, c):
        return self.send(c, keepalive())

    def upd(self, c, body=(0, 0, 0, 0)):
        return self.send(c, update(list(body)))

    def notif(self, c, code, sub, data=()):
        return self.send(c, notification(code, sub, data))

    def rclose(self, c):
        return self.add("rclose", conn=c)

    def rreset(self, c):
        return self.add("rreset", conn=c)

    def adv(self, s):
        return self.add("advance", d=sec(s))

    def advu(self, units):
        return self.add("advance", d=units)

    def delete(self, pn="p1"):
        return self.add("deletePeer", peer=pn)

    def close(self):
        return self.add("close")

    def write(self, pn, w, body):
        return self.add("write", peer=pn, w=w, b=list(body))

    def tag(self, *t):
        self.tags.update(t)
        return self

    def build(self):
        s = script(self.sid, self.peers, self.steps, self.routerID)
        s["tags"] = sorted(self.tags)
        return s

    # ---- composite moves
    def establish(self, pn="p1", direction="out", rid="10.0.0.2", hold=90):
        """Bring a session up on a fresh connection; returns the conn name."""
        c = self.dial_ok(pn) if direction == "out" else self.connect(pn)
        self.open(c, pn, rid=rid, hold=hold)
        self.ka(c)
        return c

    def to_state(self, state, pn="p1", direction="out", rid="10.0.0.2", hold=90):
        c = self.dial_ok(pn) if direction == "out" else self.connect(pn)
        if state in ("openConfirm", "established"):
            self.open(c, pn, rid=rid, hold=hold)
        if state == "established":
            self.ka(c)
        return c


STATES = ("openSent", "openConfirm", "established")
DIRS = ("out", "in")


def basic():
    """Happy paths and simple endings, both directions."""
    out = []
    for d in DIRS:
        for passive in (False, True):
            if passive and d == "out":
                continue
            b = Sb("basic-%s-%s" % (d, "pas" if passive else "act"), [peer(passive=passive)])
            b.start()
            c = b.establish(direction=d)
            b.upd(c, [0, 0, 0, 0]).ka(c).adv(20).upd(c, list(range(40))).adv(31).ka(c).adv(65)
            b.notif(c, 6, 2).adv(6)
            out.append(b.tag("established").build())
    return out


def reaction_table():
    """C09: every (state, message type, direction) cell + NOTIFICATIONs + EOF/reset."""
    out = []
    msgs = {"open": lambda b, c: b.open(c), "update": lambda b, c: b.upd(c),
            "keepalive": lambda b, c: b.ka(c),
            "cease": lambda b, c: b.notif(c, 6, 4, [1, 2]),
            "notif": lambda b, c: b.notif(c, 3, 1, [9]),
            "shortnotif": lambda b, c: b.send(c, frame(3, [6])),
            "eof": lambda b, c: b.rclose(c), "reset": lambda b, c: b.rreset(c)}
    for st in STATES:
        for d in DIRS:
            for mn, mf in msgs.items():
                b = Sb("rt-%s-%s-%s" % (st, d, mn))
                b.start()
                c = b.to_state(st, direction=d)
                mf(b, c)
                b.adv(1).adv(70)
                # aftermath: the peer can establish again (after any hold-down)
                c2 = b.connect()
                b.open(c2).ka(c2).adv(1)
                out.append(b.tag(st, "cell").build())
    return out
