"""Script builders and script families for the bubble harness."""
import itertools
import random

from bgp import (sec, frame, open_msg, open_body, keepalive, update, notification, ip4, peer,
                 step, script, cap, cap4, u16, u32, U)


class Sb:
    """Fluent builder of one script."""

    def __init__(self, sid, peers=None, routerID="10.0.0.1"):
        self.sid = sid
        self.peers = peers if peers is not None else [peer()]
        self.routerID = routerID
        self.steps = []
        self.n = 0
        self.tags = set()
        self.listeners = None

    def P(self, name):
        return next(p for p in self.peers if p["name"] == name)

    def add(self, op, **kw):
        self.steps.append(step(op, **kw))
        return self

    def start(self, serve_first=False):
        if serve_first:
            self.add("serve")
        for p in self.peers:
            self.add("addPeer", peer=p["name"])
        if not serve_first:
            self.add("serve")
        return self

    def newconn(self):
        self.n += 1
        return "c%d" % self.n

    def dial_ok(self, pn="p1"):
        c = self.newconn()
        self.add("dialAccept", peer=pn, conn=c)
        return c

    def dial_refuse(self, pn="p1"):
        return self.add("dialRefuse", peer=pn)

    def connect(self, pn="p1", src=None, dst="10.0.0.1:179"):
        c = self.newconn()
        self.add("connect", conn=c, src=src or (self.P(pn)["remote"] + ":40000"), dst=dst)
        return c

    def send(self, c, b, chunks=()):
        return self.add("send", conn=c, b=list(b), chunks=list(chunks))

    # extra capabilities the remote announces in every OPEN of this script (in addition to 4-octet AS)
    extra_caps = ()

    def open(self, c, pn="p1", rid="10.0.0.2", hold=90, **kw):
        p = self.P(pn)
        if self.extra_caps and "caps" not in kw and "params" not in kw:
            kw["caps"] = [cap4(p["remoteAS"])] + [cap(code, val) for code, val in self.extra_caps]
        return self.send(c, open_msg(p["remoteAS"], hold, ip4(rid), **kw))

    def ka(self, c):
        return self.send(c, keepalive())

    def upd(self, c, body=(0, 0, 0, 0)):
        return self.send(c, update(list(body)))

    def notif(self, c, code, sub, data=()):
        return self.send(c, notification(code, sub, data))

    def rclose(self, c):
        return self.add("rclose", conn=c)

    def stall(self, c):
        self.add("stall", conn=c)
        return self

    def unstall(self, c):
        self.add("unstall", conn=c)
        return self

    def rreset(self, c):
        return self.add("rreset", conn=c)

    def adv(self, s):
        return self.add("advance", d=sec(s))

    def advu(self, units):
        return self.add("advance", d=units)

    def delete(self, pn="p1"):
        return self.add("deletePeer", peer=pn)

    def close(self):
        return self.add("close")

    def write(self, pn, w, body):
        return self.add("write", peer=pn, w=w, b=list(body))

    def tag(self, *t):
        self.tags.update(t)
        return self

    def build(self):
        s = script(self.sid, self.peers, self.steps, self.routerID, self.listeners)
        s["tags"] = sorted(self.tags)
        return s

    # ---- composite moves
    def establish(self, pn="p1", direction="out", rid="10.0.0.2", hold=90):
        """Bring a session up on a fresh connection; returns the conn name."""
        c = self.dial_ok(pn) if direction == "out" else self.connect(pn)
        self.open(c, pn, rid=rid, hold=hold)
        self.ka(c)
        return c

    def to_state(self, state, pn="p1", direction="out", rid="10.0.0.2", hold=90):
        c = self.dial_ok(pn) if direction == "out" else self.connect(pn)
        if state in ("openConfirm", "established"):
            self.open(c, pn, rid=rid, hold=hold)
        if state == "established":
            self.ka(c)
        return c


STATES = ("openSent", "openConfirm", "established")
DIRS = ("out", "in")


def basic():
    """Happy paths and simple endings, both directions."""
    out = []
    for d in DIRS:
        for passive in (False, True):
            if passive and d == "out":
                continue
            b = Sb("basic-%s-%s" % (d, "pas" if passive else "act"), [peer(passive=passive)])
            b.start()
            c = b.establish(direction=d)
            b.upd(c, [0, 0, 0, 0]).ka(c).adv(20).upd(c, list(range(40))).adv(31).ka(c).adv(65)
            b.notif(c, 6, 2).adv(6)
            out.append(b.tag("established").build())
    # what the remote announces (any capabilities, in any number) changes nothing in the callback history
    capsets = [((6, []),), ((1, [0, 1, 0, 1]), (2, [])), ((64, [0, 120]), (6, []), (70, [])), ((69, [0, 1, 1, 3]), (73, [2, 104, 105])),
               tuple((200 + i, [i]) for i in range(20))]
    for i, cs in enumerate(capsets):
        for d in DIRS:
            b = Sb("basic-caps-%d-%s" % (i, d), [peer(caps=[(1, [0, 1, 0, 1]), (6, [])] if i % 2 == 0 else [])])
            b.extra_caps = cs
            b.start()
            c = b.establish(direction=d)
            b.upd(c, [1, 2, 3]).ka(c).notif(c, 6, 2).adv(6)
            c2 = b.establish(direction=d)
            b.upd(c2, [4]).adv(1)
            out.append(b.tag("established", "caps").build())
    return out


def reaction_table():
    """C09: every (state, message type, direction) cell + NOTIFICATIONs + EOF/reset."""
    out = []
    msgs = {"open": lambda b, c: b.open(c), "update": lambda b, c: b.upd(c),
            "keepalive": lambda b, c: b.ka(c),
            "cease": lambda b, c: b.notif(c, 6, 4, [1, 2]),
            "notif": lambda b, c: b.notif(c, 3, 1, [9]),
            "shortnotif": lambda b, c: b.send(c, frame(3, [6])),
            "maxcease": lambda b, c: b.notif(c, 6, 4, [5] * 4075),       # a message of exactly 4096 octets
            "maxnotif": lambda b, c: b.notif(c, 3, 1, [9] * 4075),
            "maxupdate": lambda b, c: b.upd(c, [3] * 4077),
            "eof": lambda b, c: b.rclose(c), "reset": lambda b, c: b.rreset(c)}
    for st in STATES:
        for d in DIRS:
            for mn, mf in msgs.items():
                b = Sb("rt-%s-%s-%s" % (st, d, mn))
                b.start()
                c = b.to_state(st, direction=d)
                mf(b, c)
                b.adv(1).adv(70)
                # aftermath: the peer can establish again (after any hold-down)
                c2 = b.connect()
                b.open(c2).ka(c2).adv(1)
                out.append(b.tag(st, "cell").build())
    return out


def collision():
    """C07: both connections exchange OPENs before either is Established."""
    out = []
    # (routerID local, remote id, localAS, remoteAS): id <, >, = with AS <, >
    rel = [("lt", "10.0.0.1", "10.0.0.2", 65001, 65002), ("gt", "10.0.0.9", "10.0.0.2", 65001, 65002),
           ("eqAsGt", "10.0.0.2", "10.0.0.2", 65009, 65002), ("eqAsLt", "10.0.0.2", "10.0.0.2", 65001, 65002),
           ("lt4", "10.0.0.1", "10.0.0.2", 4200000001, 4200000002),
           # equal identifiers and 4-octet AS numbers on either side of AS_TRANS (23456)
           ("eq4lt", "10.0.0.2", "10.0.0.2", 64512, 4200000000), ("eq4gt", "10.0.0.2", "10.0.0.2", 4200000000, 64512),
           ("eq4lo", "10.0.0.2", "10.0.0.2", 100, 4200000000),
           # identifiers more than 2^31 apart, on either side
           ("farGt", "192.0.2.1", "10.0.0.1", 65001, 65002), ("farLt", "10.0.0.1", "200.0.0.1", 65001, 65002)]
    for rn, lid, rid, las, ras in rel:
        for first_conn in DIRS:            # which connection is opened first
            for first_open in DIRS:        # whose OPEN arrives first
                for ka_on in ("keep", "lose", "both"):
                    b = Sb("col-%s-%s-%s-%s" % (rn, first_conn, first_open, ka_on),
                           [peer(localAS=las, remoteAS=ras)], routerID=lid)
                    b.start()
                    cs = {}
                    for d in ((first_conn,) + tuple(x for x in DIRS if x != first_conn)):
                        cs[d] = b.dial_ok() if d == "out" else b.connect()
                    for d in ((first_open,) + tuple(x for x in DIRS if x != first_open)):
                        b.open(cs[d], rid=rid)
                    # after resolution: KEEPALIVE on the connection(s)
                    dominant = ip4(lid) > ip4(rid) or (lid == rid and las > ras)
                    keep = "out" if dominant else "in"
                    lose = "in" if dominant else "out"
                    if ka_on in ("keep", "both"):
                        b.ka(cs[keep]).upd(cs[keep])
                    if ka_on in ("lose", "both"):
                        b.ka(cs[lose])
                    b.adv(1)
                    out.append(b.tag("collision").build())
    # the rule does not depend on what else was negotiated: hold time 0 (no timers), differing per connection
    for rn, lid, rid, las, ras in rel[:4]:
        for first_open in DIRS:
            for lh, rh1, rh2 in ((0, 90, 90), (90, 0, 0), (90, 0, 30), (90, 30, 0), (3, 9, 0)):
                b = Sb("col-hold-%s-%s-%d-%d-%d" % (rn, first_open, lh, rh1, rh2),
                       [peer(localAS=las, remoteAS=ras, hold=lh)], routerID=lid)
                b.start()
                cs = {"out": b.dial_ok(), "in": b.connect()}
                for d, rh in zip((first_open,) + tuple(x for x in DIRS if x != first_open), (rh1, rh2)):
                    b.open(cs[d], rid=rid, hold=rh)
                dominant = ip4(lid) > ip4(rid) or (lid == rid and las > ras)
                keep = "out" if dominant else "in"
                b.ka(cs[keep]).upd(cs[keep]).adv(1)
                out.append(b.tag("collision", "hold0").build())
    # the remote comes back with another identifier (the outbound FSM object is the same as before): the rule
    # uses the identifier of the OPEN received on THIS connection
    for rid1, rid2 in (("10.0.0.9", "10.0.0.1"), ("10.0.0.1", "10.0.0.9"), ("10.0.0.9", "10.0.0.8")):
        for first_open in DIRS:
            for how in ("eof-oc", "cease-est"):
                b = Sb("col-newid-%s-%s-%s-%s" % (rid1, rid2, first_open, how), [peer(idleHold=sec(1))], routerID="10.0.0.5")
                b.start()
                c0 = b.dial_ok()
                b.open(c0, rid=rid1)
                if how == "eof-oc":
                    b.rclose(c0)
                else:
                    b.ka(c0).notif(c0, 6, 4)
                b.adv(1)
                cs = {"out": b.dial_ok(), "in": b.connect()}
                for d in ((first_open,) + tuple(x for x in DIRS if x != first_open)):
                    b.open(cs[d], rid=rid2)
                keep = "out" if ip4("10.0.0.5") > ip4(rid2) else "in"
                b.ka(cs[keep]).upd(cs[keep]).adv(1)
                out.append(b.tag("collision", "newid").build())
    # the connection that was kept dies before it is Established: a non-passive peer dials again after idle-hold
    for rn, lid, rid, las, ras in rel[:2]:
        for first_open in DIRS:
            for how in ("eof", "reset", "cease"):
                b = Sb("col-keptdies-%s-%s-%s" % (rn, first_open, how), [peer(localAS=las, remoteAS=ras, idleHold=sec(2))], routerID=lid)
                b.start()
                cs = {"out": b.dial_ok(), "in": b.connect()}
                for d in ((first_open,) + tuple(x for x in DIRS if x != first_open)):
                    b.open(cs[d], rid=rid)
                dominant = ip4(lid) > ip4(rid) or (lid == rid and las > ras)
                keep = "out" if dominant else "in"
                {"eof": lambda: b.rclose(cs[keep]), "reset": lambda: b.rreset(cs[keep]), "cease": lambda: b.notif(cs[keep], 6, 4)}[how]()
                b.advu(sec(2) - 1).advu(1).adv(1)
                c3 = b.dial_ok()
                b.open(c3, rid=rid).ka(c3).adv(1)
                out.append(b.tag("collision", "keptdies", "pace").build())
    # an inbound session was Established and ended; the next outbound handshake has no competitor
    for lid in ("10.0.0.1", "10.0.0.9"):
        for how in ("eof", "cease", "reset"):
            b = Sb("col-afterin-%s-%s" % (lid, how), [peer(idleHold=sec(1))], routerID=lid)
            b.start()
            b.dial_refuse()
            ci = b.establish(direction="in")
            b.upd(ci)
            {"eof": lambda: b.rclose(ci), "cease": lambda: b.notif(ci, 6, 2), "reset": lambda: b.rreset(ci)}[how]()
            b.adv(1)
            co = b.dial_ok()
            b.open(co).ka(co).upd(co).adv(1)
            ci2 = b.connect()
            b.open(ci2).adv(1)
            out.append(b.tag("collision", "afterin").build())
    # established first: KEEPALIVE on the first connection before the second OPEN
    for rn, lid, rid, las, ras in rel[:2]:
        for first in DIRS:
            b = Sb("col-estfirst-%s-%s" % (rn, first), [peer(localAS=las, remoteAS=ras)], routerID=lid)
            b.start()
            cs = {}
            cs[first] = b.dial_ok() if first == "out" else b.connect()
            o = "in" if first == "out" else "out"
            if o == "out":
                cs[o] = b.dial_ok()
                b.open(cs[first], rid=rid).ka(cs[first]).open(cs[o], rid=rid)
            else:
                b.open(cs[first], rid=rid)
                cs[o] = b.connect()
                b.ka(cs[first]).open(cs[o], rid=rid)
            b.upd(cs[first]).adv(1)
            out.append(b.tag("collision", "estfirst").build())
    # faults on the would-be survivor racing with resolution
    for fault in ("eof", "cease", "notif"):
        for rn, lid, rid, las, ras in rel[:2]:
            b = Sb("col-fault-%s-%s" % (fault, rn), [peer(localAS=las, remoteAS=ras)], routerID=lid)
            b.start()
            co, ci = b.dial_ok(), b.connect()
            b.open(co, rid=rid)
            keep = co if rn == "gt" else ci
            lose = ci if rn == "gt" else co
            if fault == "eof":
                b.rclose(keep)
            elif fault == "cease":
                b.notif(keep, 6, 0)
            else:
                b.notif(keep, 2, 2)
            b.open(ci, rid=rid).ka(lose).adv(1).adv(70)
            out.append(b.tag("collision", "fault").build())
    return out


def stop_points():
    """C10: Close / DeletePeer at every quiescent point of connection scripts."""
    out = []
    prefixes = []

    def mk(name, fn):
        prefixes.append((name, fn))

    mk("fresh", lambda b: None)
    mk("dialrefused", lambda b: b.dial_refuse())
    mk("connect-pending", lambda b: b.adv(1))
    for d in DIRS:
        for st in STATES:
            mk("%s-%s" % (d, st), lambda b, d=d, st=st: b.to_state(st, direction=d))
    mk("both-opensent", lambda b: (b.dial_ok(), b.connect()))
    mk("collision-done", lambda b: [b.open(c) for c in (b.dial_ok(), b.connect())])
    mk("active-after-eof", lambda b: b.rclose(b.dial_ok()))
    mk("damped", lambda b: (b.notif(b.establish(), 3, 1), b.adv(10)))
    mk("est-then-writes", lambda b: (b.establish(), b.write("p1", 1, [1, 2, 3])))
    mk("retry-stalled", lambda b: b.adv(5))
    for name, fn in prefixes:
        for how in ("close", "delete", "delete-then-close"):
            for passive in (False, True):
                if passive and not name.startswith("in-") and name != "fresh":
                    continue
                b = Sb("stop-%s-%s%s" % (name, how, "-pas" if passive else ""), [peer(passive=passive)])
                b.start()
                fn(b)
                if how == "close":
                    b.close()
                elif how == "delete":
                    b.delete()
                    b.adv(20)
                else:
                    b.delete().close()
                out.append(b.tag("stop").build())
    return out


def damping():
    """C12: protocol errors damp (60 s doubling to 300 s, amnesia after 300 s); Cease / TCP faults do not."""
    out = []

    def err(b, kind, d):
        """cause one protocol error on a fresh session in direction d; returns conn"""
        if kind.startswith("rx"):            # received NOTIFICATION code n in Established
            c = b.establish(direction=d)
            b.notif(c, int(kind[2:]), 1)
        elif kind == "hdr":
            c = b.establish(direction=d)
            b.send(c, frame(2, [], length=18))
        elif kind == "badopen":
            c = b.to_state("openSent", direction=d)
            b.open(c, hold=2)
        elif kind == "fsm":
            c = b.to_state("openConfirm", direction=d)
            b.upd(c)
        elif kind == "hold":
            c = b.establish(direction=d, hold=3)
            b.adv(3)
        elif kind == "handler":
            c = b.establish(direction=d)
            b.upd(c, [9, 9, 9, 9])
        return c

    kinds = ["rx1", "rx2", "rx3", "rx4", "rx5", "rx7", "hdr", "badopen", "fsm", "hold", "handler"]
    for k in kinds:
        for d in DIRS:
            p = peer(handlerReplies={"1": {"code": 3, "sub": 1, "data": [7]}} if k == "handler" else None)
            b = Sb("damp-%s-%s" % (k, d), [p])
            b.start()
            if d == "in":
                pass
            err(b, k, d)
            # probes around the 60 s threshold
            b.advu(sec(59) + 2999)
            c = b.connect()          # still held down: refused
            b.advu(1)                # exactly 60 s: hold-down over, dial starts
            b.advu(1)
            c = b.connect()
            b.open(c).ka(c).adv(1)
            out.append(b.tag("damp").build())
    # histories: delay sequence 60,120,240,300,300 and amnesia
    for gaps, name in (((1, 1, 1, 1), "double"), ((1, 299, 1), "noamnesia"), ((1, 301, 1), "amnesia")):
        b = Sb("damp-hist-%s" % name, [peer(passive=True)])
        b.start()
        delay = 60
        c = b.establish(direction="in")
        b.notif(c, 3, 1)
        for g in gaps:
            b.adv(delay + g)         # hold-down over (+ gap since the error)
            c = b.establish(direction="in")
            b.notif(c, 2, 2)
            b.adv(delay)             # previous delay has passed: still held down if doubled
            cx = b.connect()
            delay = min(2 * delay, 300)
        b.adv(301)
        c = b.establish(direction="in")
        b.adv(1)
        out.append(b.tag("damp", "history").build())
    # non-damping faults never damp
    for k in ("cease", "eof", "reset"):
        for d in DIRS:
            b = Sb("nodamp-%s-%s" % (k, d))
            b.start()
            c = b.establish(direction=d)
            if k == "cease":
                b.notif(c, 6, 1)
            elif k == "eof":
                b.rclose(c)
            else:
                b.rreset(c)
            c2 = b.connect()
            b.open(c2).ka(c2).adv(6)
            out.append(b.tag("nodamp").build())
    return out


def pacing():
    """C11: retry pacing and reconnection after non-damping faults."""
    out = []
    for ih, cr in ((5, 5), (1, 10), (10, 1), (0.1, 0.3)):
        for passive in (False,):
            p = peer(idleHold=sec(ih), connRetry=sec(cr))
            # all refused
            b = Sb("pace-refuse-%s-%s" % (ih, cr), [p])
            b.start()
            for _ in range(4):
                b.dial_refuse()
                b.advu(sec(ih) - 1).advu(1)
            c = b.dial_ok()
            b.open(c).ka(c).adv(1)
            out.append(b.tag("pace").build())
            # stalled connects
            b = Sb("pace-stall-%s-%s" % (ih, cr), [p])
            b.start()
            for _ in range(3):
                b.advu(sec(cr) - 1).advu(1)
            c = b.dial_ok()
            b.open(c).ka(c).adv(1)
            out.append(b.tag("pace").build())
            # fault sequences followed by cooperative remote
            faults = ("refuse", "eofOpenSent", "eofOpenConfirm", "eofEst", "ceaseEst", "stall", "resetEst")
            for seq in itertools.product(faults, repeat=2):
                b = Sb("pace-seq-%s-%s-%s" % (ih, cr, "+".join(seq)), [p])
                b.start()
                for f in seq:
                    if f == "refuse":
                        b.dial_refuse()
                        b.advu(sec(ih))
                    elif f == "stall":
                        b.advu(sec(cr))
                    else:
                        st = {"eofOpenSent": "openSent", "eofOpenConfirm": "openConfirm"}.get(f, "established")
                        c = b.to_state(st)
                        if f.startswith("eof"):
                            b.rclose(c)
                        elif f == "ceaseEst":
                            b.notif(c, 6, 0)
                        else:
                            b.rreset(c)
                        b.advu(sec(max(ih, cr)))
                c = b.dial_ok()
                b.open(c).ka(c).adv(1)
                out.append(b.tag("pace", "seq").build())
    # many refusals in a row: the spacing stays the configured idle-hold time (no back-off, no speed-up)
    for ih, cr in ((1, 10), (0.5, 2)):
        b = Sb("pace-refuse-long-%s-%s" % (ih, cr), [peer(idleHold=sec(ih), connRetry=sec(cr))])
        b.start()
        for _ in range(10):
            b.dial_refuse()
            b.advu(sec(ih) - 1).advu(1)
        c = b.dial_ok()
        b.open(c).ka(c).adv(1).rclose(c).advu(sec(ih) - 1).advu(1)
        for _ in range(3):
            b.dial_refuse()
            b.advu(sec(ih) - 1).advu(1)
        c = b.dial_ok()
        b.open(c).ka(c).adv(1)
        out.append(b.tag("pace").build())
    # passive peers never dial; inbound flap then redial
    b = Sb("pace-passive", [peer(passive=True)])
    b.start().adv(30)
    c = b.establish(direction="in")
    b.rclose(c).adv(30)
    c = b.establish(direction="in")
    b.adv(1)
    out.append(b.tag("pace", "passive").build())
    b = Sb("pace-inflap")
    b.start()
    c = b.establish(direction="in")
    b.rclose(c)
    c2 = b.dial_ok()
    b.open(c2).ka(c2)
    out.append(b.tag("pace").build())
    return out


def holdgrid(pairs=None, rnd=None, nrand=0):
    """C06: (local, remote) hold times x traffic patterns."""
    out = []
    base = [0, 3, 4, 9, 10, 30, 90, 180, 240, 65535]
    if pairs is None:
        pairs = [(a, b) for a in (0, 3, 10, 90, 65535) for b in (0, 3, 10, 90, 65535)]
    pairs = list(pairs)
    if rnd is not None:
        for _ in range(nrand):
            pairs.append((rnd.choice([0] + [rnd.randint(3, 65535)] * 3), rnd.choice([0] + [rnd.randint(3, 65535)] * 3)))
    for lh, rh in pairs:
        h = min(lh, rh)
        for d in DIRS:
            for pat in ("silent", "ka", "upd", "late", "writes", "slowka", "updnoh", "burst"):
                if pat != "silent" and d == "in" and (lh, rh) not in ((3, 90), (0, 90), (90, 0), (10, 10)):
                    continue
                if pat == "updnoh" and h == 0:
                    continue
                # updnoh: the plugin installed no UPDATE handler; UPDATEs still restart the hold timer
                b = Sb("hold-%d-%d-%s-%s" % (lh, rh, d, pat), [peer(hold=lh, noHandler=(pat == "updnoh"))])
                b.start()
                c = b.to_state("openConfirm", direction=d, hold=rh)
                if h == 0:
                    b.adv(300)          # OpenConfirm: no timers at all
                    b.ka(c)
                    b.adv(1000).upd(c).adv(100000)
                    out.append(b.tag("hold", "zero").build())
                    continue
                H = sec(h)
                if pat == "silent":
                    b.ka(c)
                    b.advu(H - 1).advu(1).adv(1)
                elif pat in ("ka", "upd", "updnoh"):
                    b.ka(c)
                    for _ in range(4):
                        b.advu(H - 1)
                        if pat == "ka":
                            b.ka(c)
                        else:
                            b.upd(c)
                    b.advu(H - 1).advu(1)
                elif pat == "burst":
                    # messages in quick succession: each one restarts the hold timer, the last one counts
                    b.ka(c)
                    b.advu(sec(1) // 2).upd(c).advu(sec(1) // 4).ka(c).advu(sec(1) // 10).upd(c)
                    b.advu(H - 1).advu(1).adv(1)
                elif pat == "slowka":
                    # the remote takes its time in OpenConfirm; the hold timer restarts at its KEEPALIVE
                    b.advu(H // 2)
                    b.ka(c)
                    b.advu(H - 1).upd(c).advu(H - 1).advu(1)
                elif pat == "late":
                    # remote's KEEPALIVE arrives 1 unit after expiry in OpenConfirm
                    b.advu(H).advu(1)
                    b.ka(c)
                else:
                    b.ka(c)
                    for _ in range(5):
                        b.advu(H // 6)
                        b.write("p1", 1, [0, 0, 0, 0])
                    b.advu(H // 3 - 1).advu(1).ka(c).advu(H // 3)
                out.append(b.tag("hold").build())
    return out


def writers():
    """C04: WriteUpdate contract under callbacks, keepalives and teardown."""
    out = []
    bodies = [[], [7], list(range(200)) * 20 + list(range(77))]   # 0, 1, 4077 bytes
    for d in DIRS:
        p = peer(hold=3, estWrites=[[1], [2, 2]], handlerWrites={"1": [[3]], "2": [[4], [5]]})
        b = Sb("wr-callbacks-%s" % d, [p])
        b.start()
        c = b.establish(direction=d, hold=3)
        b.upd(c).upd(c).upd(c)
        for body in bodies:
            b.write("p1", 1, body)
        b.adv(1).write("p1", 1, [9]).ka(c).advu(sec(1) - 1).advu(1).ka(c).adv(1).ka(c)
        b.notif(c, 6, 0)
        b.write("p1", 1, [10])            # stale writer after the session ended
        b.adv(6)
        c2 = b.establish(direction=d, hold=3)
        b.write("p1", 1, [11]).write("p1", 2, [12])
        out.append(b.tag("writer").build())
    for end in ("cease", "eof", "reset", "notif", "delete", "close", "holdexp"):
        for d in DIRS:
            b = Sb("wr-end-%s-%s" % (end, d), [peer(hold=9)])
            b.start()
            c = b.establish(direction=d, hold=9)
            b.write("p1", 1, [1, 2, 3])
            if end == "cease":
                b.notif(c, 6, 0)
            elif end == "eof":
                b.rclose(c)
            elif end == "reset":
                b.rreset(c)
                b.write("p1", 1, [4])      # write error on a reset connection
            elif end == "notif":
                b.notif(c, 3, 2)
            elif end == "delete":
                b.delete()
            elif end == "close":
                b.close()
            else:
                b.adv(9)
            b.write("p1", 1, [5])
            if end not in ("close", "delete"):
                b.adv(61)
                c2 = b.establish(direction="in", hold=9)
                b.write("p1", 1, [6]).write("p1", 2, [7])
            out.append(b.tag("writer", "end").build())
    # two peers: a stale writer of one never writes on the other
    ps = [peer("p1", "10.0.0.2"), peer("p2", "10.0.0.3", remoteAS=65003)]
    b = Sb("wr-two-peers", ps)
    b.start()
    c1 = b.establish("p1", "in")
    c2 = b.establish("p2", "in")
    b.write("p1", 1, [1]).write("p2", 1, [2]).rclose(c1).write("p1", 1, [3]).write("p2", 1, [4])
    out.append(b.tag("writer").build())
    # equal bodies, one after the other, are written each time
    for d in DIRS:
        p = peer(hold=90, estWrites=[[1], [1], [], []], handlerWrites={"1": [[2, 2], [2, 2]], "2": [[], []]})
        b = Sb("wr-repeat-%s" % d, [p])
        b.start()
        c = b.establish(direction=d)
        big = list(range(200)) * 20 + list(range(77))
        for body in ([7], [7], [7], [], [], big, big, [7], [0, 0, 0, 0], [0, 0, 0, 0]):
            b.write("p1", 1, body)
        b.upd(c).upd(c).write("p1", 1, [2, 2]).write("p1", 1, [])
        b.adv(1)
        out.append(b.tag("writer", "repeat").build())
    # what one peer's connection received (garbage included) never shows up in what corebgp writes to another
    garbage = {"http": [ord(x) for x in "GET / HTTP/1.1\r\nHost: x\r\n\r\n"], "zeros": [0] * 19, "marker": [0x11] * 16 + [0, 19, 4],
               "biglen": [0xFF] * 16 + [0xFF, 0xFF, 2] + [0x22] * 60, "upd": update([0x33] * 100)}
    for gn, g in garbage.items():
        for st in ("openSent", "established"):
            ps = [peer("p1", "10.0.0.2", hold=9), peer("p2", "10.0.0.3", remoteAS=65003, hold=9, handlerWrites={"1": [[8, 8]], "2": [[]]}),
                  peer("p3", "10.0.0.4", remoteAS=65004, passive=True)]
            b = Sb("wr-polluted-%s-%s" % (gn, st), ps)
            b.start()
            c2 = b.establish("p2", "in", rid="10.0.0.3", hold=9)
            c1 = b.to_state(st, "p1", "in", hold=9)
            b.send(c1, g).send(c1, g)
            for k in range(3):
                b.write("p2", 1, [k] * (k * 7))
            b.upd(c2, [1]).upd(c2, [2]).adv(3).write("p2", 1, []).adv(3)
            c3 = b.establish("p3", "in", rid="10.0.0.4")
            b.write("p3", 1, [5, 5, 5]).adv(1)
            out.append(b.tag("writer", "polluted").build())
    return out


def chunkings(n, cuts):
    return [c for c in cuts if 0 < c < n]


def segmentation(rnd):
    """C03/C08: UPDATE delivery independent of TCP segmentation; interleaved KEEPALIVEs."""
    out = []
    lens = [0, 1, 3, 4, 23, 4076, 4077]
    k = 0
    for d in DIRS:
        for trial in range(6):
            seq = []
            for _ in range(rnd.randint(2, 6)):
                if rnd.random() < 0.3:
                    seq.append(keepalive())
                else:
                    n = rnd.choice(lens)
                    seq.append(update([(k + i) % 251 for i in range(n)]))
                    k += 1
            stream = [x for m in seq for x in m]
            for mode in ("one", "bytes", "cuts", "random", "timed"):
                b = Sb("seg-%s-%d-%s" % (d, trial, mode), [peer()])
                b.start()
                c = b.establish(direction=d)
                if mode == "one":
                    b.send(c, stream)
                elif mode == "bytes":
                    b.send(c, stream, [1] * min(len(stream), 6000))
                elif mode == "cuts":
                    cuts = []
                    pos = 0
                    for m in seq:
                        for off in (8, 16, 17, 18, 19, len(m) // 2 + 19 if len(m) > 19 else 19, len(m) - 1, len(m) + 1):
                            if 0 < off:
                                cuts.append(pos + off)
                        pos += len(m)
                    cuts = sorted(set(c_ for c_ in cuts if 0 < c_ < len(stream)))
                    sizes = [b_ - a_ for a_, b_ in zip([0] + cuts, cuts + [len(stream)])]
                    b.send(c, stream, sizes)
                elif mode == "random":
                    sizes = []
                    left = len(stream)
                    while left > 0:
                        n = min(left, rnd.choice([1, 2, 17, 19, 20, 100, 1500, 5000]))
                        sizes.append(n)
                        left -= n
                    b.send(c, stream, sizes)
                else:
                    # several stimuli: partial message, wait, rest
                    pos = 0
                    while pos < len(stream):
                        n = min(len(stream) - pos, rnd.choice([5, 18, 19, 30, 4000]))
                        b.send(c, stream[pos:pos + n])
                        pos += n
                b.adv(1)
                out.append(b.tag("seg").build())
    # handler NOTIFICATION at k: later UPDATEs not delivered
    for d in DIRS:
        for kk in (1, 2, 3):
            p = peer(handlerReplies={str(kk): {"code": 3, "sub": 1, "data": [1, 2, 3]}})
            b = Sb("seg-handler-notif-%s-%d" % (d, kk), [p])
            b.start()
            c = b.establish(direction=d)
            b.send(c, [x for i in range(4) for x in update([i] * 5)])
            b.adv(1)
            out.append(b.tag("seg", "handlernotif").build())
    # no handler installed
    b = Sb("seg-nohandler", [peer(noHandler=True)])
    b.start()
    c = b.establish()
    b.upd(c).upd(c).adv(1)
    out.append(b.tag("seg").build())
    return out


def headers(rnd, lengths=None, types=None):
    """C08: header faults at each state, after well-formed messages."""
    out = []
    lengths = lengths or [0, 1, 18, 19, 20, 28, 29, 4095, 4096, 4097, 65535]
    types = types or [0, 1, 2, 3, 4, 5, 6, 255]
    cases = []
    for pos in range(16):
        for v in (0x00, 0xFE):
            m = [0xFF] * 16
            m[pos] = v
            cases.append(("mk%d-%d" % (pos, v), m + [0, 19, 4]))
    for ln in lengths:
        for ty in (2, 4, 9):
            body = [5] * max(0, min(ln, 4096) - 19)
            cases.append(("len%d-t%d" % (ln, ty), [0xFF] * 16 + u16(ln) + [ty] + body))
    for ty in types:
        for ln in (19, 23):
            cases.append(("ty%d-l%d" % (ty, ln), [0xFF] * 16 + u16(ln) + [ty] + [1] * (ln - 19)))
    # several faults in one header: the first check that fails decides (marker, then length, then type)
    for pos, v in ((0, 0), (15, 0xFE), (7, 1)):
        m = [0xFF] * 16
        m[pos] = v
        for ln in (0, 18, 4097, 65535):
            cases.append(("mk%d-len%d" % (pos, ln), m + u16(ln) + [4]))
        cases.append(("mk%d-ty0" % pos, m + [0, 19, 0]))
        cases.append(("mk%d-len18-ty9" % pos, m + [0, 18, 9]))
    for ln in (0, 18, 4097):
        for ty in (0, 9, 255):
            cases.append(("len%d-ty%d" % (ln, ty), [0xFF] * 16 + u16(ln) + [ty]))
    for name, raw in cases:
        st = rnd.choice(STATES)
        d = rnd.choice(DIRS)
        pre = rnd.choice([0, 1, 2]) if st == "established" else 0
        seg = rnd.choice(["one", "hb", "bytes"])
        b = Sb("hdr-%s-%s-%s-%d-%s" % (name, st, d, pre, seg), [peer()])
        # what the remote announced must not change how its headers are judged
        b.extra_caps = rnd.choice([(), ((6, []),), ((6, []), (1, [0, 1, 0, 1])), ((2, []), (70, [])), ((64, [0, 120]), (6, []))])
        b.start()
        c = b.to_state(st, direction=d)
        stream = [x for i in range(pre) for x in update([i, i])] + raw + keepalive()
        if seg == "one":
            b.send(c, stream)
        elif seg == "hb":
            b.send(c, stream, [19 + 23 * pre, 10])
        else:
            b.send(c, stream, [1] * min(len(stream), 200))
        b.adv(1)
        out.append(b.tag("hdr").build())
    # header faults on a later connection of the same FSM object, after sessions that ended without damping
    for fault, raw in (("marker", [0xFF] * 15 + [0xFE, 0, 19, 4]), ("length", [0xFF] * 16 + [0, 18, 4]), ("type", [0xFF] * 16 + [0, 19, 9])):
        for st in STATES:
            for first_end in ("cease-rx", "eof", "cease-tx"):
                p = peer(idleHold=sec(1), handlerReplies={"1": {"code": 6, "sub": 2, "data": []}} if first_end == "cease-tx" else None)
                b = Sb("hdr2-%s-%s-%s" % (fault, st, first_end), [p])
                b.start()
                c = b.establish(direction="out")
                if first_end == "cease-rx":
                    b.notif(c, 6, 4)
                elif first_end == "eof":
                    b.rclose(c)
                else:
                    b.upd(c)                       # the handler answers with a Cease
                b.adv(1)
                c2 = b.to_state(st, direction="out")
                b.send(c2, raw + keepalive()).adv(1)
                out.append(b.tag("hdr", "second").build())
    # truncated body + EOF, absent body + stall
    for st in STATES:
        for kind in ("trunc-eof", "stall"):
            b = Sb("hdr-%s-%s" % (kind, st), [peer()])
            b.start()
            c = b.to_state(st)
            b.send(c, [0xFF] * 16 + u16(40) + [2] + [1, 2, 3])
            if kind == "trunc-eof":
                b.rclose(c)
            b.adv(10)
            out.append(b.tag("hdr").build())
    return out


def open_bodies(rnd, remoteAS, localID, limit=None):
    """C02: OPEN bodies from a field/TLV/perturbation builder.  Yields (name, body)."""
    as2_right = remoteAS if remoteAS <= 65535 else 23456
    versions = [4, 0, 3, 5, 255]
    as2s = [as2_right, 23456, 0, 64999]
    holds = [90, 0, 1, 2, 3, 65535]
    ids = [ip4("10.0.0.2"), localID, 0, ip4("224.0.0.1"), ip4("239.255.255.255"), ip4("255.255.255.255"),
           ip4("223.255.255.255"), ip4("240.0.0.1")]
    good4 = cap4(remoteAS)
    caplists = [
        [good4], [], [cap(1, [0, 1, 0, 1]), good4], [good4, cap(2, []), cap(64, [0] * 6), cap(69, [0, 1, 1, 3])],
        [cap4(remoteAS ^ 1)], [cap(65, [0, 0, 1])], [cap(65, [])], [cap(65, [0, 0, 0, 1, 2])],
        [cap(1, [0, 1, 0, 1])], [good4, good4], [good4, cap4(remoteAS ^ 1)], [cap4(remoteAS ^ 1), good4],
        [cap(0, []), cap(255, [1] * 253 if False else [1] * 40), good4], [cap(128, [7]), good4, cap(2, [])],
    ]
    cases = []
    # one field off at a time
    for v in versions:
        cases.append(("ver%d" % v, open_body(remoteAS, 90, ids[0], version=v)))
    for a in as2s:
        cases.append(("as2-%d" % a, open_body(remoteAS, 90, ids[0], as2=a)))
    for h in holds:
        cases.append(("hold%d" % h, open_body(remoteAS, h, ids[0])))
    for i in ids:
        cases.append(("id%x" % i, open_body(remoteAS, 90, i)))
    for k, cl in enumerate(caplists):
        cases.append(("caps%d" % k, open_body(remoteAS, 90, ids[0], caps=cl)))
    # parameter layouts
    g = [b for b in good4]
    plist = {
        "noparams": [], "two-cap-params": [2, 6] + g + [2, 2, 2, 0], "cap-split": [2, 2, 2, 0, 2, 6] + g,
        "unknown-param": [1, 0, 2, 6] + g, "unknown-after": [2, 6] + g + [3, 1, 9], "param255": [255, 0, 2, 6] + g,
        "empty-cap-param": [2, 0], "empty-cap-param-then-good": [2, 0, 2, 6] + g,
        "param-trunc-hdr": [2, 6] + g + [2], "param-overrun": [2, 7] + g, "cap-overrun": [2, 6, 65, 5, 0, 0, 0, 1],
        "cap-hdr-trunc": [2, 7] + g + [1], "only-unknown": [0, 0],
    }
    for n, pl in plist.items():
        cases.append(("pl-" + n, open_body(remoteAS, 90, ids[0], params=pl)))
    # the 2-octet field carrying the low 16 bits of a 4-octet AS, or the high ones
    if remoteAS > 65535:
        cases.append(("as2-low16", open_body(remoteAS, 90, ids[0], as2=remoteAS & 0xFFFF)))
        cases.append(("as2-high16", open_body(remoteAS, 90, ids[0], as2=remoteAS >> 16)))
    # random parameter layouts: 1-3 capability parameters with 1-3 capabilities each, the 4-octet-AS
    # capability in a random position (or missing, or wrong)
    pool = [cap(1, [0, 1, 0, 1]), cap(1, [0, 2, 0, 1]), cap(2, []), cap(64, [0, 120, 0, 1, 1, 0]), cap(69, [0, 1, 1, 3]),
            cap(70, []), cap(128, []), cap(73, [1, 65, 0])]
    for i in range(24):
        params = [[rnd.choice(pool) for _ in range(rnd.randint(1, 3))] for _ in range(rnd.randint(1, 3))]
        kind = rnd.choice(["good", "good", "good", "missing", "wrong"])
        if kind != "missing":
            pi = rnd.randrange(len(params))
            params[pi].insert(rnd.randint(0, len(params[pi])), good4 if kind == "good" else cap4(remoteAS ^ 256))
        pl = []
        for pr in params:
            cb = [x for c in pr for x in c]
            pl += [2, len(cb)] + cb
        cases.append(("layout%d-%s" % (i, kind), open_body(remoteAS, 90, ids[0], params=pl)))
    # perturbations of a good body: optlen, truncation at every offset, trailing garbage
    good = open_body(remoteAS, 90, ids[0], caps=[cap(1, [0, 1, 0, 1]), good4])
    for dlt in (-1, 1, -9, 255):
        bb = list(good)
        bb[9] = (bb[9] + dlt) & 0xFF if dlt != 255 else 255
        cases.append(("optlen%+d" % dlt, bb))
    for cut in range(0, len(good)):
        cases.append(("trunc%d" % cut, good[:cut]))
    cases.append(("trail1", good + [0]))
    cases.append(("trail2", good + [2, 0]))
    # several faults at once
    cases.append(("multi-ver-hold", open_body(remoteAS, 1, ids[0], version=3)))
    cases.append(("multi-as-id", open_body(remoteAS, 90, ip4("224.0.0.1"), as2=64999)))
    cases.append(("multi-hold-nocap", open_body(remoteAS, 2, ids[0], caps=[cap(1, [0, 1, 0, 1])])))
    cases.append(("astrans-nocap", open_body(remoteAS, 90, ids[0], as2=23456, caps=[cap(1, [0, 1, 0, 1])])))
    cases.append(("astrans-goodcap", open_body(remoteAS, 90, ids[0], as2=23456)))
    if limit:
        rnd.shuffle(cases)
        cases = cases[:limit]
    return cases


def open_cases(rnd, limit_per_cfg=None, random_bodies=0):
    """C02 end-to-end: OPEN body x configuration x direction."""
    out = []
    # local hold time 0 / 3 with every remote hold time around the boundary
    for lh in (0, 3):
        for rh in (0, 1, 2, 3, 4, 65535):
            for d in DIRS:
                b = Sb("open-lh%d-rh%d-%s" % (lh, rh, d), [peer(hold=lh)])
                b.start()
                c = b.to_state("openSent", direction=d)
                b.open(c, hold=rh)
                b.ka(c).upd(c).adv(1)
                out.append(b.tag("open", "hold").build())
    cfgs = [("as2", 65001, 65002, "10.0.0.1"), ("same-as", 65002, 65002, "10.0.0.1"),
            ("as4", 65001, 4200000002, "10.0.0.1"), ("as4-same", 4200000002, 4200000002, "10.0.0.9"),
            ("astrans-real", 65001, 23456, "10.0.0.1")]
    for cn, las, ras, lid in cfgs:
        cases = open_bodies(rnd, ras, ip4(lid), limit_per_cfg)
        for i in range(random_bodies):
            n = rnd.choice([0, 1, 9, 10, 11, 12, 16, 29, 40, 300, 4077])
            body = [rnd.choice([0, 1, 2, 4, 6, 65, 255, rnd.randrange(256)]) for _ in range(n)]
            if n >= 10 and rnd.random() < 0.7:
                body[9] = (n - 10) & 0xFF
                body[0] = 4
            cases.append(("rnd%d" % i, body))
        for name, body in cases:
            for d in DIRS:
                if d == "in" and rnd.random() < 0.5 and limit_per_cfg:
                    continue
                veto = rnd.random() < 0.08
                p = peer(localAS=las, remoteAS=ras,
                         openReply={"code": 2, "sub": 7, "data": [9, 9]} if veto else None)
                b = Sb("open-%s-%s-%s%s" % (cn, name, d, "-veto" if veto else ""), [p], routerID=lid)
                b.start()
                c = b.to_state("openSent", direction=d)
                b.send(c, frame(1, body))
                b.ka(c).upd(c).adv(1)
                out.append(b.tag("open").build())
    return out


def open_encode(rnd, n=40):
    """C14: the OPEN corebgp sends, for configurations and plugin capability lists."""
    out = []
    lases = [1, 65535, 65536, 23456, 4294967295, 64512]
    holds = [0, 3, 90, 65535]
    rids = ["0.0.0.1", "10.0.0.1", "255.255.255.254"]
    vlens = [0, 1, 4, 100, 252, 253, 254, 255, 256, 300]
    codes = [0, 1, 2, 64, 65, 69, 255]
    k = 0
    lists = [[], [(1, [0, 1, 0, 1])], [(65, [0, 0, 0, 9])], [(1, [0, 1, 0, 1]), (65, [1, 2, 3, 4]), (2, [])],
             [(65, [])], [(64, [0] * 245)], [(64, [0] * 246)], [(64, [0] * 255)], [(64, [0] * 256)], [(64, [0] * 300)],
             [(2, [])] * 40, [(1, [0, 1, 0, 1])] * 41, [(1, [0, 1, 0, 1])] * 42, [(64, [1] * 120), (64, [2] * 121)],
             [(64, [1] * 120), (64, [2] * 122)], [(65, [0] * 300), (1, [0, 1, 0, 1])]]
    for _ in range(n):
        cl = []
        for _ in range(rnd.choice([0, 1, 2, 3, 5, 10, 40])):
            cl.append((rnd.choice(codes), [rnd.randrange(256)] * rnd.choice(vlens[:4] if rnd.random() < 0.8 else vlens)))
        lists.append(cl)
    for cl in lists:
        las = rnd.choice(lases)
        h = rnd.choice(holds)
        rid = rnd.choice(rids)
        for d in DIRS:
            k += 1
            b = Sb("enc-%d-%s" % (k, d), [peer(localAS=las, hold=h, caps=cl)], routerID=rid)
            b.start()
            c = b.dial_ok() if d == "out" else b.connect()
            b.adv(6)
            out.append(b.tag("enc").build())
    return out


def admission():
    """C13: only connections from configured peers to the configured address."""
    out = []
    A = dict(name="pa", remote="10.0.0.2")
    Bp = dict(name="pb", remote="10.0.0.3", remoteAS=65003, localAddr="10.0.0.1")
    V6 = dict(name="p6", remote="2001:db8::2", remoteAS=65006, localAddr="2001:db8::1")
    srcs = {"A": "10.0.0.2:1000", "B": "10.0.0.3:1000", "stranger": "10.0.0.66:1000",
            "v6": "[2001:db8::2]:1000", "v6stranger": "[2001:db8::66]:1000", "mapped": "[::ffff:10.0.0.2]:1000"}
    dsts = {"cfg": "10.0.0.1:179", "other": "10.0.0.77:179", "v6cfg": "[2001:db8::1]:179", "v6other": "[2001:db8::7]:179",
            "prefix2": "10.0.0.11:179", "prefix3": "10.0.0.100:179", "v6prefix": "[2001:db8::11]:179"}
    for passive in (False, True):
        for sn, src in srcs.items():
            for dn, dst in dsts.items():
                ps = [peer(passive=passive, **A), peer(passive=passive, **Bp), peer(passive=passive, **V6)]
                b = Sb("adm-%s-%s-%s" % ("pas" if passive else "act", sn, dn), ps)
                b.start()
                # an existing session with pa must be unaffected
                c0 = b.establish("pa", "in")
                c = b.newconn()
                b.add("connect", conn=c, src=src, dst=dst)
                b.upd(c0).adv(1)
                out.append(b.tag("adm").build())
    # a peer whose configured local address is the unspecified address: no connection's destination equals it
    for la, remote, dst in (("0.0.0.0", "10.0.0.2", "10.0.0.1:179"), ("::", "2001:db8::2", "[2001:db8::1]:179")):
        for passive in (False, True):
            ps = [peer("pu", remote, localAddr=la, passive=passive), peer("pb", "10.0.0.3", remoteAS=65003, passive=True)]
            b = Sb("adm-unspec-%s-%s" % (la.replace(":", "c"), "pas" if passive else "act"), ps)
            b.start()
            c0 = b.establish("pb", "in", rid="10.0.0.3")
            c = b.newconn()
            b.add("connect", conn=c, src=("[%s]:1000" % remote) if ":" in remote else remote + ":1000", dst=dst)
            b.upd(c0).adv(1)
            c2 = b.newconn()
            b.add("connect", conn=c2, src="10.0.0.66:1000", dst="10.0.0.1:179")
            b.upd(c0).adv(1).add("listPeers")
            out.append(b.tag("adm").build())
    # peer state at arrival
    states = ["fresh", "out-connect", "out-openSent", "out-openConfirm", "out-established", "in-progress",
              "in-established", "helddown", "deleted"]
    for st in states:
        for withlocal in (False, True):
            p = peer(localAddr="10.0.0.1" if withlocal else "")
            b = Sb("adm-state-%s-%s" % (st, "la" if withlocal else "nola"), [p])
            b.start()
            if st == "out-connect":
                pass
            elif st.startswith("out-"):
                c0 = b.to_state(st[4:])
            elif st == "in-progress":
                c0 = b.connect()
            elif st == "in-established":
                c0 = b.establish(direction="in")
            elif st == "helddown":
                c0 = b.establish(direction="in")
                b.notif(c0, 2, 2)
            elif st == "deleted":
                b.delete()
            c = b.connect()
            b.open(c).ka(c).adv(1)
            cw = b.newconn()
            b.add("connect", conn=cw, src="10.0.0.2:5", dst="10.0.0.99:179")
            b.adv(1)
            out.append(b.tag("adm", "state").build())
    return out


def registry(rnd, nseq=60):
    """C20 (life-cycle half): registry operations before / during / after Serve."""
    out = []
    ps = [peer("pa", "10.0.0.2"), peer("pb", "10.0.0.3", remoteAS=65003, passive=True)]
    ops = ["add-pa", "add-pb", "del-pa", "del-pb", "get-pa", "get-pb", "list", "serve", "close", "conn-pa", "conn-pb", "adv"]
    for i in range(nseq):
        b = Sb("reg-%d" % i, ps)
        served = closed = False
        for _ in range(rnd.randint(3, 9)):
            o = rnd.choice(ops)
            if o == "serve":
                if served:
                    if not closed:
                        continue
                served = True
                b.add("serve")
            elif o == "close":
                b.close()
                closed = True
            elif o.startswith("add-"):
                b.add("addPeer", peer=o[4:])
            elif o.startswith("del-"):
                b.delete(o[4:])
            elif o.startswith("get-"):
                b.add("getPeer", peer=o[4:])
            elif o == "list":
                b.add("listPeers")
            elif o.startswith("conn-"):
                if served and not closed:
                    c = b.connect(o[5:])
                    b.open(c, o[5:]).ka(c)
            else:
                b.adv(rnd.choice([1, 5, 6]))
        b.add("listPeers")
        out.append(b.tag("reg").build())
    return out


def add_storm(rounds=40, nscripts=4):
    """C20: several AddPeer calls for the SAME absent key issued at once (and, in every other round, two
    DeletePeer calls for the same present key): exactly one of each may succeed, whatever the interleaving
    inside AddPeer/DeletePeer.  Before Serve (no sessions, cheap) and, in the last script, while serving a
    passive peer."""
    out = []
    for i in range(nscripts):
        serving = i == nscripts - 1
        ps = [peer("pa", "10.0.0.2", passive=True), peer("pb", "10.0.0.3", remoteAS=65003, passive=True)]
        b = Sb("addstorm-%d" % i, ps)
        if serving:
            b.add("serve")
        for r in range(rounds):
            k = 2 + (r + i) % 4
            subs = [step("addPeer", peer="pa") for _ in range(k)]
            if r % 3 == 0:
                subs += [step("addPeer", peer="pb"), step("addPeer", peer="pb")]
            if r % 4 == 1:
                # a snapshot taken in the middle of the storm lists the key at most once
                subs.insert(1, step("listPeers"))
            b.steps.append(multi(*subs))
            if r % 2:
                b.steps.append(multi(step("deletePeer", peer="pa"), step("deletePeer", peer="pa"), step("getPeer", peer="pa")))
            else:
                b.delete("pa")
            if r % 3 == 0:
                b.delete("pb")
        b.add("listPeers")
        out.append(b.tag("reg", "apirace").build())
    return out


def multi(*subs):
    return step("multi", multi=list(subs))


def collision_racy(rnd, n):
    """C07/C01: two stimuli on different connections issued without waiting in between."""
    out = []
    for i in range(n):
        lid = rnd.choice(["10.0.0.1", "10.0.0.9"])
        b = Sb("colr-%d" % i, [peer()], routerID=lid)
        b.start()
        co, ci = b.dial_ok(), b.connect()
        p = b.P("p1")
        o = open_msg(p["remoteAS"], 90, ip4("10.0.0.2"))
        kind = rnd.choice(["open-open", "ka-open", "eof-open", "open-ka", "close-open", "notif-open", "ka-ka"])
        x, y = (co, ci) if rnd.random() < 0.5 else (ci, co)
        if kind == "open-open":
            b.steps.append(multi(step("send", conn=x, b=o), step("send", conn=y, b=o)))
        elif kind == "ka-open":
            b.open(x)
            b.steps.append(multi(step("send", conn=x, b=keepalive()), step("send", conn=y, b=o)))
        elif kind == "eof-open":
            b.open(x)
            b.steps.append(multi(step("rclose", conn=x), step("send", conn=y, b=o)))
        elif kind == "notif-open":
            b.open(x)
            b.steps.append(multi(step("send", conn=x, b=notification(4, 0)), step("send", conn=y, b=o)))
        elif kind == "open-ka":
            b.open(x)
            b.steps.append(multi(step("send", conn=y, b=o + keepalive()), step("send", conn=x, b=keepalive())))
        elif kind == "ka-ka":
            b.open(x)
            b.steps.append(multi(step("send", conn=y, b=o), step("send", conn=x, b=keepalive()),
                                 step("send", conn=y, b=keepalive())))
        else:
            b.open(x)
            b.steps.append(multi(step("close"), step("send", conn=y, b=o)))
        b.ka(co).ka(ci).adv(1)
        out.append(b.tag("collision", "racy").build())
    return out


def notif_values(rnd, n):
    out = []
    for i in range(n):
        st, d = rnd.choice(STATES), rnd.choice(DIRS)
        code, sub = rnd.choice(list(range(0, 9)) + [255]), rnd.choice([0, 1, 255])
        dl = rnd.choice([0, 1, 2, 300])
        b = Sb("nval-%d-%s-%s-%d-%d-%d" % (i, st, d, code, sub, dl))
        b.start()
        c = b.to_state(st, direction=d)
        b.notif(c, code, sub, [rnd.randrange(256) for _ in range(dl)])
        b.adv(rnd.choice([1, 59, 61]))
        c2 = b.connect()
        b.open(c2).ka(c2).adv(1)
        out.append(b.tag("nval").build())
    return out


def _cut(s, rnd, sid, how):
    """truncate script s at a random point after start-up and stop the server / peer"""
    n = rnd.randint(min(2, len(s["steps"])), len(s["steps"]))
    steps = [st for st in s["steps"][:n] if st["op"] != "close"]
    t = dict(s, id=sid, steps=list(steps))
    if how == "close":
        t["steps"].append(step("close"))
    elif how == "delete":
        t["steps"].append(step("deletePeer", peer=s["peers"][0]["name"]))
        t["steps"].append(step("advance", d=sec(7)))
    else:
        # stop racing with the last stimulus
        last = t["steps"].pop() if len(t["steps"]) > 2 and t["steps"][-1]["op"] in ("send", "rclose", "connect", "dialAccept") else None
        subs = ([last] if last else []) + [step("close")]
        if rnd.random() < 0.5:
            subs.reverse()
        t["steps"].append(multi(*subs))
    t["tags"] = sorted(set(s.get("tags", [])) | {"stop"})
    return t


def stop_everywhere(rnd, n):
    pool = collision() + damping() + writers() + sample_list(pacing(), rnd, 40) + reaction_table()
    out = []
    for i in range(n):
        s = rnd.choice(pool)
        out.append(_cut(s, rnd, "stopx-%d-%s" % (i, s["id"]), rnd.choice(["close", "delete", "race"])))
    return out


def sample_list(lst, rnd, n):
    lst = list(lst)
    rnd.shuffle(lst)
    return lst[:n]


def damping_random(rnd, n):
    out = []
    for i in range(n):
        passive = rnd.random() < 0.5
        b = Sb("dampr-%d" % i, [peer(passive=passive, handlerReplies={"1": {"code": rnd.choice([3, 6]), "sub": 1, "data": []}})])
        b.start()
        delay = 0
        for _ in range(rnd.randint(1, 5)):
            kind = rnd.choice(["rx", "rxcease", "hdr", "eof", "hold", "handler", "badopen", "fsm"])
            c = b.connect()
            if kind == "badopen":
                b.open(c, hold=1)
            elif kind == "fsm":
                b.upd(c)
            else:
                b.open(c, hold=3 if kind == "hold" else 90).ka(c)
                if kind == "rx":
                    b.notif(c, rnd.choice([1, 2, 3, 4, 5, 7]), 0)
                elif kind == "rxcease":
                    b.notif(c, 6, 0)
                elif kind == "hdr":
                    b.send(c, [0] * 19)
                elif kind == "eof":
                    b.rclose(c)
                elif kind == "hold":
                    b.adv(3)
                else:
                    b.upd(c)
            gap = rnd.choice([0, 59, 60, 61, 119, 120, 121, 239, 240, 241, 299, 300, 301, 360, 599, 600, 601])
            b.advu(sec(gap) + rnd.choice([-1, 0, 1]) if gap else 0)
            cx = b.connect()          # probe: accepted or refused?
            b.adv(rnd.choice([0, 1, 30]))
        b.adv(301)
        c = b.connect()
        b.open(c).ka(c).adv(1)
        out.append(b.tag("damp", "random").build())
    return out


def writers_random(rnd, n):
    out = []
    for i in range(n):
        h = rnd.choice([0, 3, 9, 90])
        d = rnd.choice(DIRS)
        p = peer(hold=h, estWrites=[[1] * rnd.choice([0, 1, 50])] * rnd.randint(0, 2),
                 handlerWrites={"1": [[2, 2]]} if rnd.random() < 0.5 else None)
        b = Sb("wrr-%d" % i, [p])
        b.start()
        c = b.establish(direction=d, hold=h)
        nsess = 1
        for _ in range(rnd.randint(3, 12)):
            a = rnd.choice(["write", "write", "writes", "ka", "upd", "adv", "advka", "end", "stale"])
            if a == "write":
                b.write("p1", nsess, [rnd.randrange(256)] * rnd.choice([0, 1, 4, 300, 4077]))
            elif a == "writes":
                b.steps.append(multi(*[step("write", peer="p1", w=nsess, b=[j, j]) for j in range(rnd.randint(2, 4))]))
            elif a == "ka":
                b.ka(c)
            elif a == "upd":
                b.upd(c)
            elif a == "adv" and h:
                b.advu(sec(h) // 3 - rnd.choice([0, 1]))
            elif a == "advka" and h:
                b.advu(sec(h) // 3).ka(c)
            elif a == "stale" and nsess > 1:
                b.write("p1", rnd.randint(1, nsess - 1), [9])
            elif a == "end":
                rnd.choice([lambda: b.notif(c, 6, 0), lambda: b.rclose(c), lambda: b.rreset(c)])()
                b.write("p1", nsess, [8])
                b.adv(6)
                c = b.connect()
                b.open(c, hold=h).ka(c)
                nsess += 1
        out.append(b.tag("writer", "random").build())
    return out


def segmentation_long(rnd, n):
    out = []
    for i in range(n):
        b = Sb("segl-%d" % i, [peer()])
        b.start()
        c = b.establish(direction=rnd.choice(DIRS))
        stream = []
        for k in range(200):
            if rnd.random() < 0.2:
                stream += keepalive()
            else:
                ln = rnd.choice([0, 1, 2, 4, 19, 50, 300])
                stream += update([(k >> 8) & 255, k & 255][:ln] + [k % 251] * max(0, ln - 2))
        sizes = []
        left = len(stream)
        while left > 0:
            m = min(left, rnd.choice([1, 3, 19, 64, 512, 1460]))
            sizes.append(m)
            left -= m
        b.send(c, stream, sizes).adv(1)
        out.append(b.tag("seg", "long").build())
    return out


def mutate(rnd, data):
    data = list(data)
    for _ in range(rnd.randint(1, 4)):
        if not data:
            data = [rnd.randrange(256)]
        k = rnd.choice(["flip", "len", "drop", "dup", "ins", "trunc", "rand"])
        i = rnd.randrange(len(data))
        if k == "flip":
            data[i] ^= 1 << rnd.randrange(8)
        elif k == "len" and len(data) >= 19:
            j = rnd.choice([16, 17])
            data[j] = rnd.choice([0, 1, 16, 18, 19, 255, data[j] ^ 1])
        elif k == "drop":
            del data[i]
        elif k == "dup":
            data[i:i] = data[i:i + rnd.randint(1, 30)]
        elif k == "ins":
            data[i:i] = [rnd.randrange(256) for _ in range(rnd.randint(1, 40))]
        elif k == "trunc":
            data = data[:i]
        else:
            data[i] = rnd.randrange(256)
    return data


def fuzz(rnd, n):
    """C05: arbitrary / mutated bytes at every state, with the epilogue: another peer still establishes, Close returns."""
    out = []
    valid = lambda p: [open_msg(p["remoteAS"], 90, ip4("10.0.0.2")), keepalive(), update([0, 0, 0, 0]),
                       update([0, 0, 0, 7, 0x40, 1, 1, 0, 0x40, 2, 0]), notification(6, 0),
                       open_msg(p["remoteAS"], 0, ip4("10.0.0.2")), frame(5, []), frame(3, [1]),
                       frame(1, [4, 0, 1]), frame(2, [255] * 4077)]
    states = ("accepted",) + STATES
    for i in range(n):
        ps = [peer("p1", "10.0.0.2", hold=rnd.choice([0, 3, 90])), peer("p2", "10.0.0.3", remoteAS=65003)]
        b = Sb("fuzz-%d" % i, ps)
        b.start()
        st, d = rnd.choice(states), rnd.choice(DIRS)
        c = b.to_state(st if st != "accepted" else "openSent", direction=d, hold=rnd.choice([0, 3, 90]))
        msgs = valid(ps[0])
        stream = []
        for _ in range(rnd.randint(1, 5)):
            m = rnd.choice(msgs)
            stream += mutate(rnd, m) if rnd.random() < 0.7 else m
        if rnd.random() < 0.1:
            stream = [rnd.randrange(256) for _ in range(rnd.choice([1, 18, 19, 20, 64, 5000]))]
        sizes = []
        left = len(stream)
        while left > 0:
            m = min(left, rnd.choice([1, 19, 64, 4096]))
            sizes.append(m)
            left -= m
        b.send(c, stream, sizes)
        if rnd.random() < 0.5:
            b.rclose(c)
        b.adv(rnd.choice([0, 1, 10]))
        # epilogue
        c2 = b.connect("p2")
        b.open(c2, "p2", rid="10.0.0.3").ka(c2).upd(c2)
        if rnd.random() < 0.3:
            b.add("getPeer", peer="p1").add("listPeers")
        b.close()
        out.append(b.tag("fuzz", st).build())
    return out


def stop_dial_race(n=12):
    """C10: Close / DeletePeer / Established-on-the-other-connection racing with a dial that succeeds."""
    out = []
    for i in range(n):
        for how in ("close", "delete", "est"):
            for order in (0, 1):
                b = Sb("stopdial-%s-%d-%d" % (how, order, i))
                b.start()
                if how == "est":
                    ci = b.connect()
                    b.open(ci)
                    subs = [step("dialAccept", peer="p1", conn=b.newconn()), step("send", conn=ci, b=keepalive())]
                else:
                    subs = [step("dialAccept", peer="p1", conn=b.newconn()),
                            step("close") if how == "close" else step("deletePeer", peer="p1")]
                if order:
                    subs.reverse()
                    if subs[0]["op"] != "dialAccept":
                        pass
                b.steps.append(multi(*subs))
                b.adv(1)
                out.append(b.tag("stop", "dialrace").build())
    return out


def damping_exact():
    """C12: probes placed 1/3 ms before and exactly at every expected end of hold-down; errors exactly at the
    amnesia threshold; Cease / TCP faults in between must not touch the history."""
    out = []

    def expected(delays_hist):
        pass

    def run(name, plan, passive=True):
        """plan: list of items; ("err", code) causes a protocol error at once (needs an acceptable peer),
        ("wait", units), ("cease",), ("eof",)"""
        b = Sb("dampx-%s" % name, [peer(passive=passive)])
        b.start()
        for it in plan:
            if it[0] == "err":
                c = b.connect()
                b.open(c).ka(c).notif(c, it[1], 0)
            elif it[0] == "cease":
                c = b.connect()
                b.open(c).ka(c).notif(c, 6, 0)
            elif it[0] == "eof":
                c = b.connect()
                b.open(c).ka(c).rclose(c)
            elif it[0] == "probe":
                b.connect()
            else:
                b.advu(it[1])
        b.adv(1)
        out.append(b.tag("damp", "exact").build())

    def held(d):
        """after an error with expected delay d (s): refused 1 unit before the end, accepted at the end"""
        return [("wait", sec(d) - 1), ("probe",), ("wait", 1)]

    # 60, 120, 240, 300 (cap), then the next error comes exactly 300 s after the previous one: amnesia -> 60
    plan = [("err", 3)] + held(60) + [("err", 2)] + held(120) + [("err", 4)] + held(240) + [("err", 5)] + held(300) + \
           [("err", 1)] + held(60) + [("err", 7)] + held(120) + [("cease",)]
    run("ladder", plan)
    # one unit short of the amnesia threshold: still doubling
    plan = [("err", 3)] + held(60) + [("wait", sec(240) - 1), ("err", 3)] + held(120) + [("cease",)]
    run("amnesia-minus", plan)
    plan = [("err", 3)] + held(60) + [("wait", sec(240)), ("err", 3)] + held(60) + [("cease",)]
    run("amnesia-exact", plan)
    # the amnesia clock runs from the PREVIOUS error (not from the first of a streak, not from the end of a hold-down)
    plan = [("err", 3)] + held(60) + [("wait", sec(140)), ("err", 3)] + held(120) + [("wait", sec(80)), ("err", 3)] + held(240) + [("cease",)]
    run("streak-0-200-400", plan)
    plan = [("err", 3)] + held(60) + [("wait", sec(270)), ("err", 3)] + held(60) + [("cease",)]
    run("gap-330", plan)
    plan = [("err", 3)] + held(60) + [("wait", sec(239)), ("err", 3)] + held(120) + [("wait", sec(179)), ("err", 2)] + held(240) + \
           [("wait", sec(59)), ("err", 2)] + held(300) + [("err", 2)] + held(60) + [("cease",)]
    run("ladder-299", plan)
    # a Cease or TCP fault between two protocol errors neither resets nor extends anything
    for mid in ("cease", "eof"):
        plan = [("err", 3)] + held(60) + [("wait", sec(100)), (mid,), ("wait", sec(150)), ("err", 3)] + held(60) + [("cease",)]
        run("mid-%s-amnesia" % mid, plan)         # 310 s after the first error: back to 60
        plan = [("err", 3)] + held(60) + [("wait", sec(100)), (mid,), ("wait", sec(100)), ("err", 3)] + held(120) + [("cease",)]
        run("mid-%s-double" % mid, plan)          # 260 s after the first error: doubled
    # active peer: the first dial after the hold-down starts exactly at its end
    plan = [("err", 3), ("wait", sec(60) - 1), ("wait", 1), ("wait", sec(5))]
    run("active-redial", plan, passive=False)
    return out


def message_grid(rnd, n):
    """C05/C09: every message type with small systematic bodies, in every state and direction."""
    out = []
    bodies = [[], [0], [6, 0], [7, 0, 1], [7, 0, 255, 255], [1, 1], [2, 7, 65, 4], [4, 0, 1, 0, 3, 1, 2, 3, 4, 0], [255] * 5,
              [3, 11, 0], [5, 3, 9, 9, 9]]
    for i in range(n):
        st, d = rnd.choice(STATES), rnd.choice(DIRS)
        ty = rnd.choice([1, 2, 3, 3, 3, 4, 5, 0])
        body = rnd.choice(bodies)
        b = Sb("grid-%d-%s-%s-t%d-%d" % (i, st, d, ty, len(body)), [peer("p1", "10.0.0.2"), peer("p2", "10.0.0.3", remoteAS=65003)])
        b.start()
        c = b.to_state(st, direction=d)
        b.send(c, frame(ty, body)).adv(1)
        c2 = b.connect("p2")
        b.open(c2, "p2", rid="10.0.0.3").ka(c2).upd(c2).close()
        out.append(b.tag("fuzz", "grid").build())
    return out


def gated():
    """C10/C01: Close / DeletePeer / AddPeer while an FSM is held inside a plugin callback (the application
    releases it later), so that the peer manager is busy at the interesting moments."""
    out = []

    def rel(b, name, k):
        return b.add("release", peer="p1", call=name, w=k)

    for how in ("close", "delete", "delete+add"):
        def stop(b):
            if how == "close":
                b.close()
            else:
                b.delete()
        # (1) outbound FSM held in GetCapabilities (2nd invocation), inbound in OpenSent gets its OPEN after the stop
        b = Sb("gate-getcaps-%s" % how, [peer(gates=["GetCapabilities#2"])])
        b.start()
        ci = b.connect()
        co = b.dial_ok()
        stop(b)
        b.open(ci)
        rel(b, "GetCapabilities", 2)
        b.adv(1)
        out.append(b.tag("stop", "gate").build())
        # (2) held in OnOpenMessage
        for d in DIRS:
            b = Sb("gate-onopen-%s-%s" % (how, d), [peer(gates=["OnOpenMessage#1"])])
            b.start()
            c = b.to_state("openSent", direction=d)
            b.open(c)
            stop(b)
            b.ka(c)
            rel(b, "OnOpenMessage", 1)
            b.adv(1)
            out.append(b.tag("stop", "gate").build())
        # (3) held in OnEstablished: writes from the application, then stop
        for d in DIRS:
            b = Sb("gate-onest-%s-%s" % (how, d), [peer(gates=["OnEstablished#1"], estWrites=[[1, 2]])])
            b.start()
            c = b.to_state("openConfirm", direction=d)
            b.ka(c)
            b.upd(c)
            stop(b)
            rel(b, "OnEstablished", 1)
            b.adv(1)
            out.append(b.tag("stop", "gate").build())
        # (4) held in the update handler
        b = Sb("gate-update-%s" % how, [peer(gates=["Update#2"])])
        b.start()
        c = b.establish(direction="in")
        b.upd(c).upd(c).upd(c).write("p1", 1, [7])
        stop(b)
        rel(b, "Update", 2)
        b.adv(1)
        out.append(b.tag("stop", "gate").build())
        # (1b) inbound FSM held in GetCapabilities (still Active) while the outbound connection becomes Established;
        # it is stopped all the same; after it has gone, a further inbound connection is refused
        if how == "close":
            for tail in ("eof", "none"):
                b = Sb("gate-getcaps-est-%s" % tail, [peer(gates=["GetCapabilities#2"])])
                b.start()
                co = b.dial_ok()
                ci = b.connect()
                b.open(co).ka(co).upd(co)
                rel(b, "GetCapabilities", 2)
                b.adv(1)
                if tail == "eof":
                    b.rclose(ci)
                ci2 = b.connect()
                b.open(ci2).ka(ci2).upd(co).adv(1)
                out.append(b.tag("gate", "collision").build())
        # (3b)/(4b) the held callback takes seconds (virtual time passes) while the stop waits for it: the stop
        # still returns only after everything is torn down; a callback that writes after the stop request does
        # not block
        if how != "delete+add":
            for d in DIRS:
                b = Sb("gate-slow-onest-%s-%s" % (how, d), [peer(gates=["OnEstablished#1"], estWrites=[[1, 2], [3]])])
                b.start()
                c = b.to_state("openConfirm", direction=d)
                b.ka(c)
                stop(b)
                b.adv(3)
                rel(b, "OnEstablished", 1)
                b.adv(1)
                out.append(b.tag("stop", "gate", "slow").build())
                b = Sb("gate-slow-update-%s-%s" % (how, d), [peer(gates=["Update#1"], handlerWrites={"1": [[4, 5], []]})])
                b.start()
                c = b.establish(direction=d)
                b.upd(c, [9])
                stop(b)
                b.adv(2).adv(2)
                rel(b, "Update", 1)
                b.adv(1)
                out.append(b.tag("stop", "gate", "slow").build())
                b = Sb("gate-slow-onopen-%s-%s" % (how, d), [peer(gates=["OnOpenMessage#1"])])
                b.start()
                c = b.to_state("openSent", direction=d)
                b.open(c)
                stop(b)
                b.adv(5)
                rel(b, "OnOpenMessage", 1)
                b.adv(1)
                out.append(b.tag("stop", "gate", "slow").build())
        # (5) held in OnClose while the stop is in progress; the release races with new API calls and a new
        # inbound connection (nothing that needs the server lock may be issued while the stop holds it: the
        # bubble cannot wait for a goroutine blocked on a mutex)
        for end in ("cease", "stop"):
            b = Sb("gate-onclose-%s-%s" % (how, end), [peer(gates=["OnClose#1"])])
            b.start()
            c = b.establish(direction="in")
            if end == "cease":
                b.notif(c, 6, 0)
            if how == "close":
                b.close()
            else:
                b.delete()
            subs = [step("release", peer="p1", call="OnClose", w=1)]
            if how == "delete+add":
                subs.append(step("addPeer", peer="p1"))
            if how != "close":
                c2 = b.newconn()
                subs.append(step("connect", conn=c2, src="10.0.0.2:40000", dst="10.0.0.1:179"))
                subs.append(step("listPeers"))
            b.steps.append(multi(*subs))
            b.adv(6)
            if how == "delete+add":
                c3 = b.connect()
                b.open(c3).ka(c3).adv(1)
            out.append(b.tag("stop", "gate").build())
    # collision while the would-be loser is held in OnOpenMessage / GetCapabilities
    for lid in ("10.0.0.1", "10.0.0.9"):
        b = Sb("gate-collision-%s" % lid, [peer(gates=["OnOpenMessage#2"])], routerID=lid)
        b.start()
        co, ci = b.dial_ok(), b.connect()
        b.open(co).open(ci).ka(co)
        rel(b, "OnOpenMessage", 2)
        b.ka(ci).adv(1)
        out.append(b.tag("collision", "gate").build())
    return out


def api_races():
    """C10/C20/C01: registry calls racing with a stop that is held open (a gated OnClose, or a listener whose
    Close takes a while).  The racing calls are issued inside one multi step, with yields, and the gate is
    released in the same step: the bubble cannot wait for a goroutine blocked on the server mutex."""
    out = []
    two = lambda **kw: [peer("p1", "10.0.0.2", **kw), peer("p2", "10.0.0.3", remoteAS=65003)]
    Y = step("yield")

    def relc(k=1):
        return step("release", peer="p1", call="OnClose", w=k)

    for d in DIRS:
        # DeletePeer held in OnClose; AddPeer of the same peer must wait for it
        b = Sb("race-del-add-%s" % d, two(gates=["OnClose#1"]))
        b.add("addPeer", peer="p1").add("serve")
        c = b.establish("p1", d)
        b.steps.append(multi(step("deletePeer", peer="p1"), Y, step("addPeer", peer="p1"), Y, relc()))
        b.adv(6)
        c2 = b.connect("p1")
        b.open(c2).ka(c2).adv(1)
        out.append(b.tag("stop", "apirace").build())
        # Close held in OnClose; AddPeer of another peer must not start it once Close is under way
        b = Sb("race-close-add-%s" % d, two(gates=["OnClose#1"]))
        b.add("addPeer", peer="p1").add("serve")
        c = b.establish("p1", d)
        b.steps.append(multi(step("close"), Y, step("addPeer", peer="p2"), Y, step("listPeers"), Y, relc()))
        b.adv(6).add("getPeer", peer="p2").delete("p2")
        out.append(b.tag("stop", "apirace").build())
        # Close held in OnClose; a DeletePeer of that peer and a second Close must wait for the shutdown
        b = Sb("race-close-del-%s" % d, two(gates=["OnClose#1"]))
        b.add("addPeer", peer="p1").add("serve")
        c = b.establish("p1", d)
        b.steps.append(multi(step("close"), Y, step("deletePeer", peer="p1"), Y, step("close"), Y, relc()))
        b.adv(6).add("listPeers")
        out.append(b.tag("stop", "apirace").build())
        # DeletePeer held; reads and a delete of the other peer wait for the lock
        b = Sb("race-del-reads-%s" % d, two(gates=["OnClose#1"]))
        b.start()
        c = b.establish("p1", d)
        b.steps.append(multi(step("deletePeer", peer="p1"), Y, step("getPeer", peer="p1"), step("listPeers"), Y,
                             step("deletePeer", peer="p2"), Y, relc()))
        b.adv(6).add("listPeers")
        out.append(b.tag("stop", "apirace").build())
        # two DeletePeer calls for the same key overlap: exactly one succeeds
        b = Sb("race-del-del-%s" % d, two(gates=["OnClose#1"]))
        b.start()
        c = b.establish("p1", d)
        b.steps.append(multi(step("deletePeer", peer="p1"), Y, step("deletePeer", peer="p1"), Y, relc()))
        b.adv(6).add("listPeers").add("addPeer", peer="p1").adv(1)
        out.append(b.tag("stop", "apirace").build())
    # a listener whose Close takes a while: the server is closing but still serving
    for what in ("add", "add-del", "del", "add-conn", "close", "close-list"):
        b = Sb("race-lisclose-%s" % what, two())
        b.add("addPeer", peer="p1").add("serve").add("lisGate")
        c = b.establish("p1", "in")
        subs = [step("close"), Y]
        if what.startswith("add"):
            subs += [step("addPeer", peer="p2"), Y]
        if what == "add-del":
            subs += [step("deletePeer", peer="p2"), Y]
        if what == "del":
            subs += [step("deletePeer", peer="p1"), Y]
        if what == "add-conn":
            subs += [step("connect", conn="cx", src="10.0.0.3:40000", dst="10.0.0.1:179"), Y]
        if what.startswith("close"):
            # a second Close overlaps the first: it returns no earlier than the shutdown it joins
            subs += [step("close"), Y]
        if what == "close-list":
            subs += [step("listPeers"), step("close"), Y]
        subs += [step("lisRelease")]
        b.steps.append(multi(*subs))
        b.adv(6).add("listPeers")
        out.append(b.tag("stop", "apirace").build())
    return out


def trailing():
    """C05/C08/C09: a message that makes the FSM leave its state, followed IN THE SAME BURST by more bytes (a
    faulty header, a valid message, a partial header) while the remote keeps the connection open: the reader
    is left holding something nobody will consume.  Then another peer establishes and Close must return."""
    out = []
    bad_marker = [0xFF] * 15 + [0x00, 0, 19, 4]
    tails = {"badmarker": bad_marker, "badlen": [0xFF] * 16 + [0, 5, 4], "badtype": frame(9, []), "ka": keepalive(),
             "upd": update([0, 0, 0, 0]), "partial": [0xFF] * 10, "notif": notification(6, 0), "two": keepalive() + bad_marker,
             "kabody": frame(4, [1, 2, 3]), "bigupd": update([7] * 4077)}
    for st in STATES:
        enders = {"notif": notification(3, 1), "cease": notification(6, 2), "hdr": [0] * 19}
        if st == "openSent":
            enders.update({"ka": keepalive(), "badopen": frame(1, open_body(65002, 1, ip4("10.0.0.2"))),
                           "veto": open_msg(65002, 90, ip4("10.0.0.2"))})
        elif st == "openConfirm":
            enders.update({"upd": update([]), "open": open_msg(65002, 90, ip4("10.0.0.2"))})
        else:
            enders.update({"open": open_msg(65002, 90, ip4("10.0.0.2")), "handler": update([9])})
        for en, eb in enders.items():
            for tn, tb in tails.items():
                for d in DIRS:
                    if d == "out" and tn not in ("badmarker", "ka", "partial"):
                        continue
                    p1 = peer("p1", "10.0.0.2",
                              openReply={"code": 2, "sub": 7, "data": [1]} if en == "veto" else None,
                              handlerReplies={"1": {"code": 3, "sub": 1, "data": []}} if en == "handler" else None)
                    b = Sb("trail-%s-%s-%s-%s" % (st, en, tn, d), [p1, peer("p2", "10.0.0.3", remoteAS=65003)])
                    b.start()
                    c = b.to_state(st, direction=d)
                    b.send(c, eb + tb)
                    b.adv(1)
                    c2 = b.connect("p2")
                    b.open(c2, "p2", rid="10.0.0.3").ka(c2).upd(c2)
                    b.close()
                    out.append(b.tag("fuzz", "trail").build())
    return out


def damping_matrix():
    """C12: every way a non-Cease NOTIFICATION can be sent or received x every state x direction, each followed
    by hold-down probes; and the same places with Cease / transport faults (must not damp)."""
    out = []
    hdrfaults = {"notsync": [0] * 19, "badlen": [0xFF] * 16 + [0, 18, 4], "badtype": frame(7, [])}
    for st in STATES:
        kinds = {"rx3": None, "rx5": None, "rxcease": None, "eof": None, "reset": None}
        kinds.update({"hdr-" + k: v for k, v in hdrfaults.items()})
        kinds["shortopen"] = frame(1, [4, 0, 1])
        kinds["badopenparams"] = frame(1, open_body(65002, 90, ip4("10.0.0.2"), params=[1, 0]))
        if st == "openSent":
            kinds.update({"badopen-hold": None, "badopen-as": None, "veto": None, "vetocease": None, "unexp-ka": keepalive(),
                          "unexp-upd": update([])})
        elif st == "openConfirm":
            kinds.update({"unexp-upd": update([]), "unexp-open": open_msg(65002, 90, ip4("10.0.0.2")), "holdexp": None})
        else:
            kinds.update({"unexp-open": open_msg(65002, 90, ip4("10.0.0.2")), "handler": None, "handlercease": None,
                          "holdexp": None})
        for kn, raw in kinds.items():
            for d in DIRS:
                kw = {}
                if kn == "veto":
                    kw["openReply"] = {"code": 2, "sub": 7, "data": [9]}
                if kn == "vetocease":
                    kw["openReply"] = {"code": 6, "sub": 0, "data": []}
                if kn == "handler":
                    kw["handlerReplies"] = {"1": {"code": 3, "sub": 4, "data": [1]}}
                if kn == "handlercease":
                    kw["handlerReplies"] = {"1": {"code": 6, "sub": 0, "data": []}}
                b = Sb("dampm-%s-%s-%s" % (st, kn, d), [peer(hold=9, **kw)])
                b.start()
                c = b.to_state(st, direction=d, hold=9)
                if raw is not None:
                    b.send(c, raw)
                elif kn.startswith("rx"):
                    b.notif(c, 6 if kn == "rxcease" else int(kn[2:]), 0, [1] if kn == "rx5" else [])
                elif kn == "eof":
                    b.rclose(c)
                elif kn == "reset":
                    b.rreset(c)
                elif kn == "badopen-hold":
                    b.open(c, hold=2)
                elif kn == "badopen-as":
                    b.send(c, open_msg(65002, 90, ip4("10.0.0.2"), as2=64000))
                elif kn in ("veto", "vetocease"):
                    b.open(c)
                elif kn in ("handler", "handlercease"):
                    b.upd(c, [7])
                elif kn == "holdexp":
                    b.adv(9)
                # hold-down probes: inbound attempt at once, just before and at 60 s
                b.connect()
                b.advu(sec(60) - 1 - (sec(9) if kn == "holdexp" else 0))
                b.connect()
                b.advu(1)
                damps = "cease" not in kn and kn not in ("eof", "reset")
                if damps and (len(out) % 2 == 0):
                    # recover over the OUTBOUND connection: the dial that starts when the hold-down ends
                    c3 = b.dial_ok()
                else:
                    c3 = b.connect()
                b.open(c3, hold=9).ka(c3).upd(c3).adv(1)
                out.append(b.tag("damp" if damps else "nodamp", "matrix").build())
    return out


def inbound_drop():
    """C11/C13: an inbound connection that goes away in each state (incl. before the remote's OPEN), for
    passive and active peers: a passive peer never dials, the inbound slot is free again."""
    out = []
    for passive in (True, False):
        for st in ("accepted",) + STATES:
            for how in ("eof", "reset", "cease"):
                if how == "cease" and st == "accepted":
                    continue
                b = Sb("indrop-%s-%s-%s" % ("pas" if passive else "act", st, how), [peer(passive=passive, connRetry=sec(3))])
                b.start()
                c = b.to_state("openSent" if st == "accepted" else st, direction="in")
                if how == "eof":
                    b.rclose(c)
                elif how == "reset":
                    b.rreset(c)
                else:
                    b.notif(c, 6, 0)
                b.advu(sec(3) - 1).advu(1).adv(6)
                c2 = b.connect()
                b.open(c2).ka(c2).adv(1)
                out.append(b.tag("pace", "passive" if passive else "active", "indrop").build())
        # the connection is reset before corebgp has written its OPEN (GetCapabilities takes a moment)
        for how in ("reset", "eof"):
            b = Sb("indrop-%s-preopen-%s" % ("pas" if passive else "act", how),
                   [peer(passive=passive, connRetry=sec(3), gates=["GetCapabilities#1"])])
            b.start()
            c = b.connect()
            if how == "reset":
                b.rreset(c)
            else:
                b.rclose(c)
            b.add("release", peer="p1", call="GetCapabilities", w=1)
            c2 = b.connect()
            b.open(c2).advu(sec(3) - 1).advu(1).ka(c2).adv(6)
            out.append(b.tag("pace", "passive" if passive else "active", "indrop", "gate").build())
    return out


def multi_listener():
    """C13: several listeners (wildcard and bound to specific addresses, in every order); the destination
    that counts is the connection's own, whichever listener accepted it."""
    out = []
    import itertools as it
    # a dual-stack listener reports an IPv4 peer's addresses in IPv4-mapped form; they are IPv4 addresses
    for withlocal in (True, False):
        ps = [peer("pa", "10.0.0.2", localAddr="10.0.0.1" if withlocal else ""), peer("pb", "10.0.0.3", remoteAS=65003, passive=True)]
        for dst, src in (("[::ffff:10.0.0.1]:179", "[::ffff:10.0.0.2]:41000"), ("[::ffff:10.0.0.77]:179", "[::ffff:10.0.0.2]:41000"),
                         ("[::ffff:10.0.0.1]:179", "[::ffff:10.0.0.66]:41000")):
            b = Sb("mlis-dual-%s-%s-%s" % (dst[8:17], src[8:17], "la" if withlocal else "nola"), ps)
            b.listeners = ["[::]:179"]
            b.start()
            c = b.newconn()
            b.add("connect", conn=c, src=src, dst=dst)
            b.open(c, "pa").ka(c).adv(1)
            out.append(b.tag("adm", "mlis").build())
    sets = [["0.0.0.0:179", "10.0.0.1:179"], ["10.0.0.1:179", "0.0.0.0:179"], ["10.0.0.77:179", "10.0.0.1:179"],
            ["10.0.0.1:179", "10.0.0.77:179"], ["[::]:179", "10.0.0.1:179", "[2001:db8::1]:179"], ["10.0.0.1:179"]]
    for si, ls in enumerate(sets):
        for li in range(len(ls)):
            for dst in ("10.0.0.1:179", "10.0.0.77:179"):
                for withlocal in (True, False):
                    ps = [peer("pa", "10.0.0.2", localAddr="10.0.0.1" if withlocal else ""),
                          peer("pb", "10.0.0.3", remoteAS=65003, passive=True)]
                    b = Sb("mlis-%d-%d-%s-%s" % (si, li, dst.split(":")[0], "la" if withlocal else "nola"), ps)
                    b.listeners = ls
                    b.start()
                    c0 = b.establish("pb", "in")
                    c = b.newconn()
                    b.add("connect", conn=c, src="10.0.0.2:41000", dst=dst, lis=li)
                    b.open(c, "pa").ka(c).upd(c0).adv(1)
                    out.append(b.tag("adm", "mlis").build())
    return out


def two_sessions(rnd=None):
    """Several sessions on the SAME outbound FSM object (it survives non-damping endings): nothing of an
    earlier session may leak into a later one (hold time, keepalive interval, buffers, writers, callbacks)."""
    out = []
    ends = {"cease": lambda b, c: b.notif(c, 6, 0), "eof": lambda b, c: b.rclose(c), "reset": lambda b, c: b.rreset(c)}
    holds = [(90, 9, 0), (90, 3, 30), (90, 30, 3), (9, 0, 9), (9, 9, 90), (0, 9, 0), (90, 90, 0)]
    for lh, h1, h2 in holds:
        for en, ef in ends.items():
            p = peer(hold=lh, idleHold=sec(1), connRetry=sec(2))
            b = Sb("twosess-%d-%d-%d-%s" % (lh, h1, h2, en), [p])
            b.start()
            c = b.establish(direction="out", hold=h1)
            b.upd(c, [1, 1, 1, 1]).upd(c, list(range(50))).write("p1", 1, [1])
            if min(lh, h1):
                b.advu(sec(min(lh, h1)) // 3).ka(c)
            ef(b, c)
            b.adv(1)
            c2 = b.establish(direction="out", hold=h2)
            b.upd(c2, [2, 2, 2, 2, 2]).upd(c2, [255] * 60).write("p1", 2, [2]).write("p1", 1, [3])
            H = min(lh, h2)
            if H:
                b.advu(sec(H) // 3 - 1).advu(1).ka(c2).advu(sec(H) - 1).advu(1).adv(1)
            else:
                b.adv(100).ka(c2).adv(300)
                ef(b, c2)
                b.adv(1)
                c3 = b.establish(direction="out", hold=h1)
                b.upd(c3, [3] * 8).adv(1)
            out.append(b.tag("hold", "twosess", "established", "writer", "seg").build())
    return out


def pm_busy():
    """The peer manager is kept busy (it waits for an FSM held in a callback) while connections arrive and
    the application stops the peer: nothing handed to corebgp may be left open."""
    out = []
    Y = step("yield")
    for how in ("delete", "close", "none"):
        for rep in range(6 if how != "none" else 2):
            b = Sb("pmbusy-%s-%d" % (how, rep), [peer(gates=["GetCapabilities#2"])])
            b.start()
            ci = b.connect()
            b.open(ci)
            co = b.dial_ok()               # the outbound FSM is now held in GetCapabilities
            b.ka(ci)                       # inbound asks for Established: the PM starts disabling the outbound FSM and waits
            c3 = b.newconn()
            subs = [step("connect", conn=c3, src="10.0.0.2:40001", dst="10.0.0.1:179"), Y]
            if how == "delete":
                subs += [step("deletePeer", peer="p1"), Y]
            elif how == "close":
                subs += [step("close"), Y]
            subs += [step("release", peer="p1", call="GetCapabilities", w=2)]
            b.steps.append(multi(*subs))
            b.upd(ci).adv(1)
            out.append(b.tag("stop", "pmbusy", "adm").build())
    # the held outbound connection is reset before its OPEN could be written, while the PM is disabling that FSM
    for how in ("est", "delete", "damp"):
        b = Sb("pmbusy-reset-%s" % how, [peer(gates=["GetCapabilities#2"]), peer("p2", "10.0.0.3", remoteAS=65003)])
        b.start()
        ci = b.connect()
        b.open(ci)
        co = b.dial_ok()
        b.rreset(co)
        if how == "est":
            b.ka(ci)
            subs = []
        elif how == "damp":
            b.notif(ci, 3, 1)
            subs = []
        else:
            subs = [step("deletePeer", peer="p1"), step("yield")]
        b.steps.append(multi(*(subs + [step("release", peer="p1", call="GetCapabilities", w=2)])))
        b.adv(1)
        c2 = b.connect("p2")
        b.open(c2, "p2", rid="10.0.0.3").ka(c2).upd(c2).close()
        out.append(b.tag("stop", "pmbusy", "fuzz").build())
    # two connections from the same peer at (nearly) the same time: exactly one is served, the other closed
    for rep in range(6):
        b = Sb("twoconn-%d" % rep, [peer(passive=rep % 2 == 0)])
        b.start()
        c1, c2 = b.newconn(), b.newconn()
        b.steps.append(multi(step("connect", conn=c1, src="10.0.0.2:40001", dst="10.0.0.1:179"),
                             step("connect", conn=c2, src="10.0.0.2:40002", dst="10.0.0.1:179")))
        b.adv(1)
        out.append(b.tag("adm", "twoconn").build())
    return out


def fin_mid_message():
    """C09/C12: the remote's FIN arrives inside a message (after a complete header, before the last body
    octet; inside a header): a transport failure, silent, never a hold-down."""
    out = []
    for st in STATES:
        for d in DIRS:
            for cut in ("hdr10", "hdr19", "body1", "bodylast"):
                m = update(list(range(30)))
                n = {"hdr10": 10, "hdr19": 19, "body1": 20, "bodylast": len(m) - 1}[cut]
                b = Sb("finmid-%s-%s-%s" % (st, d, cut))
                b.start()
                c = b.to_state(st, direction=d)
                b.send(c, m[:n]).rclose(c).adv(1)
                c2 = b.connect()              # no hold-down: admitted at once
                b.open(c2).ka(c2).adv(1)
                out.append(b.tag("cell", "nodamp", "finmid").build())
    return out


def gated_update_eof():
    """C03: the handler is busy with UPDATE n while UPDATE n+1 and then a FIN / garbage arrive: n+1 is still delivered."""
    out = []
    for tail in ("eof", "junk", "cease"):
        for rep in range(4):
            b = Sb("updeof-%s-%d" % (tail, rep), [peer(gates=["Update#1"])])
            b.start()
            c = b.establish(direction="in")
            b.upd(c, [1])
            b.send(c, update([2, 2]) + ([0] * 19 if tail == "junk" else notification(6, 0) if tail == "cease" else []))
            if tail == "eof":
                b.rclose(c)
            b.add("release", peer="p1", call="Update", w=1)
            b.adv(1)
            out.append(b.tag("seg", "gate").build())
    # an unexpected message and then a FIN arrive while the handler is busy: the FSM Error is still sent
    for d in DIRS:
        for what in ("open", "badtype"):
            for rep in range(3):
                b = Sb("updeof-unexp-%s-%s-%d" % (what, d, rep), [peer(gates=["Update#1"])])
                b.start()
                c = b.establish(direction=d)
                b.upd(c, [1])
                b.send(c, open_msg(65002, 90, ip4("10.0.0.2")) if what == "open" else frame(9, [1, 2]))
                b.rclose(c)
                b.adv(1).add("release", peer="p1", call="Update", w=1)
                b.adv(1).adv(70)
                out.append(b.tag("seg", "gate", "reply").build())
    # the remote half-closes (FIN) while a callback is still deciding: the NOTIFICATION it returns is still sent
    for d in DIRS:
        for tail in ("eof", "ka-eof", "reset"):
            b = Sb("updeof-reply-%s-%s" % (tail, d), [peer(gates=["Update#1"], handlerReplies={"1": {"code": 3, "sub": 1, "data": [7, 7]}})])
            b.start()
            c = b.establish(direction=d)
            b.upd(c, [1])
            if tail == "ka-eof":
                b.ka(c)
            if tail == "reset":
                b.rreset(c)
            else:
                b.rclose(c)
            b.adv(1).add("release", peer="p1", call="Update", w=1)
            b.adv(1).adv(70)
            out.append(b.tag("seg", "gate", "reply").build())
            b = Sb("openeof-veto-%s-%s" % (tail, d), [peer(gates=["OnOpenMessage#1"], openReply={"code": 2, "sub": 7, "data": [1]})])
            b.start()
            c = b.to_state("openSent", direction=d)
            b.open(c)
            if tail == "ka-eof":
                b.ka(c)
            if tail == "reset":
                b.rreset(c)
            else:
                b.rclose(c)
            b.adv(1).add("release", peer="p1", call="OnOpenMessage", w=1)
            b.adv(1).adv(70)
            out.append(b.tag("seg", "gate", "reply").build())
    return out


def slow_callbacks():
    """C04/C06: a callback that takes longer than the keepalive interval (held at a gate while virtual time
    passes), then writes from inside the callback; timers that came due meanwhile are served afterwards."""
    out = []
    for d in DIRS:
        for h in (3, 9):
            for over in ("ka", "hold"):
                # OnEstablished takes a while, then writes
                p = peer(hold=h, gates=["OnEstablished#1"], estWrites=[[1, 2, 3]])
                b = Sb("slowcb-onest-%s-%d-%s" % (d, h, over), [p])
                b.start()
                c = b.to_state("openConfirm", direction=d, hold=h)
                b.ka(c)
                b.advu(sec(h) // 3 + 1 if over == "ka" else sec(h) + 1)
                b.add("release", peer="p1", call="OnEstablished", w=1)
                b.upd(c).write("p1", 1, [9]).adv(1).ka(c).adv(1)
                out.append(b.tag("writer", "hold", "gate").build())
                # the update handler takes a while, then writes
                p = peer(hold=h, gates=["Update#1"], handlerWrites={"1": [[4, 5]]})
                b = Sb("slowcb-update-%s-%d-%s" % (d, h, over), [p])
                b.start()
                c = b.establish(direction=d, hold=h)
                b.upd(c, [7])
                b.advu(sec(h) // 3 + 1 if over == "ka" else sec(h) + 1)
                b.add("release", peer="p1", call="Update", w=1)
                b.upd(c).write("p1", 1, [9]).adv(1).ka(c).adv(1)
                out.append(b.tag("writer", "hold", "gate").build())
                # messages keep arriving while the handler is busy for longer than the hold time: none is lost and
                # the hold timer is restarted once the handler has returned
                p = peer(hold=h, gates=["Update#1"])
                b = Sb("slowcb-queued-%s-%d-%s" % (d, h, over), [p])
                b.start()
                c = b.establish(direction=d, hold=h)
                b.upd(c, [7])
                b.advu(sec(h) // 3).upd(c, [8]).ka(c).upd(c, [9])
                b.advu(sec(h) // 3 + 1 if over == "ka" else sec(h) + 1)
                b.add("release", peer="p1", call="Update", w=1)
                b.adv(1).ka(c).adv(1)
                out.append(b.tag("writer", "hold", "gate").build())
            # the connection dies while the handler is busy and the keepalive timer comes due
            for end in ("reset", "eof", "cease"):
                p = peer(hold=h, gates=["Update#1"])
                b = Sb("slowcb-%s-%s-%d" % (end, d, h), [p])
                b.start()
                c = b.establish(direction=d, hold=h)
                b.upd(c, [7])
                {"reset": lambda: b.rreset(c), "eof": lambda: b.rclose(c), "cease": lambda: b.notif(c, 6, 0)}[end]()
                b.write("p1", 1, [1])         # fails on a reset connection, and must say so
                b.advu(sec(h) // 3 + 1)
                b.write("p1", 1, [2])
                b.add("release", peer="p1", call="Update", w=1)
                b.write("p1", 1, [3]).adv(70)
                out.append(b.tag("writer", "hold", "gate", "end").build())
    return out


def close_race_connect(reps=6):
    """C05/C10: inbound connections arriving exactly while Close / DeletePeer is in progress."""
    out = []
    for rep in range(reps):
        for how in ("close", "delete"):
            for first in (0, 1):
                ps = [peer("p1", "10.0.0.2", passive=True), peer("p2", "10.0.0.3", remoteAS=65003, passive=True)]
                b = Sb("closerace-%s-%d-%d" % (how, first, rep), ps)
                b.start()
                c0 = b.establish("p2", "in", rid="10.0.0.3")
                cs = [b.newconn() for _ in range(3)]
                subs = [step("connect", conn=cs[0], src="10.0.0.2:40001", dst="10.0.0.1:179"),
                        step("close") if how == "close" else step("deletePeer", peer="p1"),
                        step("connect", conn=cs[1], src="10.0.0.2:40002", dst="10.0.0.1:179"),
                        step("connect", conn=cs[2], src="10.0.0.3:40003", dst="10.0.0.1:179")]
                if first:
                    subs[0], subs[1] = subs[1], subs[0]
                b.steps.append(multi(*subs))
                b.adv(1).add("listPeers")
                out.append(b.tag("stop", "closerace", "fuzz").build())
    return out


def pm_gates():
    """The peer manager itself is held (inside the application's Logger, which corebgp calls from the PM
    goroutine at every transition / error) at chosen moments, while timers fire, dials complete and
    connections arrive; then released.  Gate names: dis-out / dis-in (disableFSM about to stop an FSM),
    apv-out / apv-in (a transition was just handed to an FSM), err-out / err-in (an error was received)."""
    out = []

    def rel(b, name, k):
        return b.add("release", peer="p1", call=name, w=k)

    # (1) PM held while it is about to disable the outbound FSM (inbound reaches Established); meanwhile the
    #     outbound FSM's idle-hold timer fires, it dials, the dial succeeds; then the PM goes on
    for what in ("dial-ok", "dial-refuse", "nothing"):
        b = Sb("pmgate-disout-%s" % what, [peer(gates=["dis-out#1"], idleHold=sec(5), connRetry=sec(30))])
        b.start()
        b.dial_refuse()                       # outbound FSM back in Idle, idle-hold timer running (5 s)
        ci = b.connect()
        b.open(ci).ka(ci)                     # Established requested: PM held before stopping the outbound FSM
        b.adv(5)                              # idle-hold expires: dial starts, transition request waits for the PM
        if what == "dial-ok":
            co = b.dial_ok()
        elif what == "dial-refuse":
            b.dial_refuse()
        rel(b, "dis-out", 1)
        b.upd(ci).adv(1)
        out.append(b.tag("stop", "pmgate", "collision").build())
    # (2) PM held right after approving OpenConfirm of one connection; the other connection's OPEN and KEEPALIVE arrive
    for lid in ("10.0.0.1", "10.0.0.9"):
        for first in DIRS:
            g = "apv-%s#%d" % (first, 4 if first == "out" else 3)     # the approval of OpenConfirm
            b = Sb("pmgate-apv-%s-%s" % (lid, first), [peer(gates=[g])], routerID=lid)
            b.start()
            co, ci = b.dial_ok(), b.connect()
            cs = {"out": co, "in": ci}
            o = "in" if first == "out" else "out"
            b.open(cs[first])
            b.open(cs[o]).ka(cs[first]).ka(cs[o])
            rel(b, g.split("#")[0], int(g.split("#")[1]))
            b.adv(1)
            out.append(b.tag("collision", "pmgate").build())
    # (3) PM held when an error arrives; the other connection progresses, the application stops the peer
    for how in ("none", "delete"):
        for code in (6, 3):
            b = Sb("pmgate-err-%s-%d" % (how, code), [peer(gates=["err-in#1"])])
            b.start()
            co, ci = b.dial_ok(), b.connect()
            b.open(ci).notif(ci, code, 0)             # error reported on the inbound connection: PM held
            b.open(co).ka(co)
            subs = ([step("deletePeer", peer="p1"), step("yield")] if how == "delete" else []) + \
                   [step("release", peer="p1", call="err-in", w=1)]
            b.steps.append(multi(*subs))
            b.adv(1).adv(61)
            out.append(b.tag("damp" if code != 6 else "nodamp", "pmgate", "stop").build())
    # (4) PM held when a damping error arrives; a new inbound connection is accepted meanwhile and waits for the
    #     PM: it belongs to the hold-down that is about to begin
    for passive in (True, False):
        for st in ("openConfirm", "established"):
            b = Sb("pmgate-err-connect-%s-%s" % ("pas" if passive else "act", st), [peer(passive=passive, gates=["err-in#1"], idleHold=sec(2))])
            b.start()
            ci = b.to_state(st, direction="in")
            b.notif(ci, 3, 1)                         # damping error: PM held
            c2 = b.connect()
            rel(b, "err-in", 1)
            b.adv(1)
            c3 = b.connect()
            b.open(c3).advu(sec(59) - 1)
            c4 = b.connect()
            b.advu(1).adv(3)
            c5 = b.connect()
            b.open(c5).ka(c5).adv(1)
            out.append(b.tag("damp", "pmgate").build())
    # (5) PM held right after approving OpenConfirm; the remote's KEEPALIVE (Established requested) and a stop
    #     request both wait for it: whichever the PM takes first, the callbacks stay paired.  Run on one P as
    #     well: the FSM then resumes only after the PM has gone on to serve the stop.
    for first in DIRS:
        for stop in ("deletePeer", "close"):
            for onep in (False, True):
                for rep in range(3 if onep else 1):
                    g, k = "apv-%s" % first, (4 if first == "out" else 3)
                    b = Sb("pmgate-apv-stop-%s-%s-%s%d" % (first, stop, "1p" if onep else "np", rep), [peer(gates=["%s#%d" % (g, k)], passive=(first == "in"))])
                    b.start()
                    c = b.dial_ok() if first == "out" else b.connect()
                    b.open(c)
                    b.steps.append(multi(step("send", conn=c, b=keepalive()), step(stop, peer="p1" if stop == "deletePeer" else ""),
                                         step("yield"), step("release", peer="p1", call=g, w=k)))
                    b.adv(1)
                    out.append(b.tag("pmgate", "stop", *(["oneP"] if onep else [])).build())
    # (6) PM held right after approving OpenConfirm of the outbound connection; an inbound connection is accepted
    #     and the remote's KEEPALIVE arrives meanwhile: the PM then serves "new inbound connection", "outbound
    #     Established" and the new FSM's first request in whichever order its select yields
    for lid in ("10.0.0.1", "10.0.0.9"):
        for rep in range(4):
            b = Sb("pmgate-apv-inconn-%s-%d" % (lid, rep), [peer(gates=["apv-out#4"])], routerID=lid)
            b.start()
            co = b.dial_ok()
            b.open(co)
            ci = b.newconn()
            b.steps.append(multi(step("connect", conn=ci, src="10.0.0.2:40000", dst="10.0.0.1:179"), step("send", conn=co, b=keepalive()),
                                 step("yield"), step("release", peer="p1", call="apv-out", w=4)))
            b.adv(1).upd(co).open(ci).adv(1)
            out.append(b.tag("pmgate", "collision", *(["oneP"] if rep % 2 else [])).build())
    # (8) PM held right after approving OpenConfirm of the connection that will lose; the remote closes that
    #     connection (or sends Cease on it) and its OPEN on the other connection arrives meanwhile: whichever
    #     request the PM takes first, the other connection goes on and becomes Established
    for lid in ("10.0.0.1", "10.0.0.9"):
        lose = "out" if lid == "10.0.0.1" else "in"
        win = "in" if lose == "out" else "out"
        g, k = "apv-%s" % lose, (4 if lose == "out" else 3)
        for how in ("eof", "cease"):
            for rep in range(4):
                b = Sb("pmgate-loserdown-%s-%s-%d" % (lid, how, rep), [peer(gates=["%s#%d" % (g, k)])], routerID=lid)
                b.start()
                cs = {"out": b.dial_ok(), "in": b.connect()}
                b.open(cs[lose])
                down = step("rclose", conn=cs[lose]) if how == "eof" else step("send", conn=cs[lose], b=notification(6, 7))
                b.steps.append(multi(down, step("send", conn=cs[win], b=open_msg(65002, 90, ip4("10.0.0.2"))), step("yield"),
                                     step("release", peer="p1", call=g, w=k)))
                b.adv(1).ka(cs[win]).upd(cs[win]).adv(1)
                out.append(b.tag("pmgate", "collision", *(["oneP"] if rep % 2 else [])).build())
    # (7) PM held while it handles a damping error of one connection; the other connection fails too (its FSM
    #     waits to report): both belong to one incident, the hold-down is 60 s and the next one 120 s
    for first in DIRS:
        for second in ("notif", "cease", "eof", "bad"):
            g = "err-%s" % first
            b = Sb("pmgate-err-both-%s-%s" % (first, second), [peer(gates=[g + "#1"], idleHold=sec(1))])
            b.start()
            cs = {"out": b.dial_ok(), "in": b.connect()}
            o = "in" if first == "out" else "out"
            b.notif(cs[first], 2, 2)                   # damping error in OpenSent: PM held
            if second == "notif":
                b.notif(cs[o], 3, 1)
            elif second == "cease":
                b.notif(cs[o], 6, 0)
            elif second == "eof":
                b.rclose(cs[o])
            else:
                b.send(cs[o], frame(7, []))
            rel(b, g, 1)
            b.advu(sec(60) - 1)
            c3 = b.connect()
            b.advu(1).adv(1)
            c4 = b.dial_ok()
            b.notif(c4, 2, 2)                          # second incident: 120 s
            b.advu(sec(120) - 1).advu(1).adv(1)
            c5 = b.dial_ok()
            b.open(c5).ka(c5).adv(1)
            out.append(b.tag("damp", "pmgate").build())
    return out


def notif_out(rnd):
    """C08: NOTIFICATIONs the plugin asks corebgp to send (OPEN veto, handler reply) reach the wire exactly."""
    out = []
    pairs = [(6, 2), (6, 4), (6, 0), (3, 1), (2, 7), (255, 255)]
    lens = [0, 1, 2, 3, 127, 128, 255, 256, 257, 300, 1000, 4075]
    for code, sub in pairs:
        for n in lens:
            data = [(7 * i + n) % 256 for i in range(n)]
            if n and rnd.random() < 0.5:
                data[0] = rnd.choice([0, 1, n - 1, n, 255]) % 256     # looks like a length octet
            for via in ("veto", "handler"):
                if via == "veto":
                    p = peer(openReply={"code": code, "sub": sub, "data": data})
                else:
                    p = peer(handlerReplies={"1": {"code": code, "sub": sub, "data": data}})
                b = Sb("nout-%s-%d-%d-%d" % (via, code, sub, n), [p])
                b.start()
                d = rnd.choice(DIRS)
                if via == "veto":
                    c = b.to_state("openSent", direction=d)
                    b.open(c)
                else:
                    c = b.establish(direction=d)
                    b.upd(c)
                b.adv(1)
                out.append(b.tag("hdr", "nout").build())
    return out


def backpressure():
    """C04/C10/C06: the remote stops reading (send buffer full): corebgp's writes block.  corebgp sets no write
    deadline, so a blocked write ends only when the remote reads again, resets, or the connection is closed by
    another goroutine; nothing may be lost, duplicated, reordered per goroutine or torn meanwhile."""
    out = []
    for d in DIRS:
        # application writer blocked, then the keepalive timer fires: both complete once the remote reads again
        b = Sb("bp-app-ka-%s" % d, [peer(hold=9)])
        b.start()
        c = b.establish(direction=d, hold=9)
        b.stall(c).write("p1", 1, [1, 1]).adv(3).write("p1", 1, [2]).adv(1).unstall(c).ka(c).adv(3).ka(c).adv(3)
        out.append(b.tag("stall", "writer").build())
        # blocked until the hold timer has expired: Hold Timer Expired follows the unblocked writes
        b = Sb("bp-holdexp-%s" % d, [peer(hold=9)])
        b.start()
        c = b.establish(direction=d, hold=9)
        b.stall(c).adv(3).adv(6).adv(1).unstall(c).adv(61)
        out.append(b.tag("stall").build())
        # ... with writers of the application blocked all that time (they are not timed out: no write deadline)
        for hold in (9, 3, 0):
            b = Sb("bp-long-app-%s-%d" % (d, hold), [peer(hold=hold)])
            b.start()
            c = b.establish(direction=d, hold=hold or 90)
            b.stall(c).write("p1", 1, [6] * 40).adv(1).write("p1", 1, [7]).adv(2).adv(6).adv(1).adv(90).unstall(c).adv(61)
            out.append(b.tag("stall", "writer").build())
        for end in ("reset", "cease", "eof", "notif"):
            for who in ("app", "ka", "both"):
                b = Sb("bp-%s-%s-%s" % (end, who, d), [peer(hold=9)])
                b.start()
                c = b.establish(direction=d, hold=9)
                b.stall(c)
                if who in ("app", "both"):
                    b.write("p1", 1, [3, 3, 3])
                if who in ("ka", "both"):
                    b.adv(3)
                {"reset": lambda: b.rreset(c), "cease": lambda: b.notif(c, 6, 0), "eof": lambda: b.rclose(c),
                 "notif": lambda: b.notif(c, 3, 1)}[end]()
                b.adv(1)
                if end != "reset":
                    b.unstall(c)
                b.write("p1", 1, [4]).adv(70)
                out.append(b.tag("stall", "writer", "end").build())
        # writes made from the callbacks block the FSM itself
        p = peer(hold=9, estWrites=[[1], [2, 2]], handlerWrites={"1": [[3]]})
        b = Sb("bp-callbacks-%s" % d, [p])
        b.start()
        c = b.to_state("openConfirm", direction=d, hold=9)
        b.stall(c).ka(c).adv(2).unstall(c).upd(c).stall(c).upd(c).upd(c).adv(4).unstall(c).ka(c).adv(2)
        out.append(b.tag("stall", "writer").build())
        # stop requests while the Cease cannot be written: they complete once the remote reads again
        for stop in ("deletePeer", "close"):
            for pre in ("idle", "app"):
                b = Sb("bp-%s-%s-%s" % (stop, pre, d), [peer(hold=9)])
                b.start()
                c = b.establish(direction=d, hold=9)
                b.stall(c)
                if pre == "app":
                    b.write("p1", 1, [5])
                b.steps.append(multi(step(stop, peer="p1" if stop == "deletePeer" else ""), step("yield"), step("unstall", conn=c)))
                b.adv(1)
                out.append(b.tag("stall", "stop").build())
    # NOTIFICATIONs that cannot be written at once are written late, never dropped: corebgp has no write deadline
    for d in DIRS:
        # no timers negotiated: an unexpected message is still answered with FSM Error
        for lh, rh in ((0, 90), (90, 0)):
            for st in ("openConfirm", "established"):
                b = Sb("bp-hold0-%d-%d-%s-%s" % (lh, rh, st, d), [peer(hold=lh)])
                b.start()
                c = b.to_state(st, direction=d, hold=rh)
                b.adv(200).open(c, hold=rh).adv(70)
                out.append(b.tag("notif", "hold0").build())
        for wait in (1, 6, 31):
            for kind in ("handler", "openreply", "unexpected-oc", "unexpected-est", "badopen", "collision"):
                kw = {}
                if kind == "handler":
                    kw["handlerReplies"] = {"1": {"code": 3, "sub": 1, "data": [7]}}
                if kind == "openreply":
                    kw["openReply"] = {"code": 2, "sub": 7, "data": [1]}
                b = Sb("bp-notif-%s-%d-%s" % (kind, wait, d), [peer(hold=90, **kw)])
                b.start()
                if kind in ("handler", "unexpected-est"):
                    c = b.establish(direction=d)
                    b.stall(c)
                    if kind == "handler":
                        b.upd(c)
                    else:
                        b.open(c)
                elif kind == "unexpected-oc":
                    c = b.to_state("openConfirm", direction=d)
                    b.stall(c).upd(c)
                elif kind == "openreply":
                    c = b.to_state("openSent", direction=d)
                    b.stall(c).open(c)
                elif kind == "badopen":
                    c = b.to_state("openSent", direction=d)
                    b.stall(c).send(c, frame(1, [3, 0xFD, 0xEA, 0, 90, 10, 0, 0, 2, 0]))
                else:
                    # the loser of a collision gets its Cease late
                    c = b.to_state("openConfirm", direction=d, rid="10.0.0.2")
                    b.stall(c)
                    c2 = b.to_state("openConfirm", direction="in" if d == "out" else "out", rid="10.0.0.2")
                b.adv(wait).unstall(c).adv(70)
                out.append(b.tag("stall", "notif").build())
    # a stop request waits for the blocked Cease for as long as it takes (virtual seconds pass)
    for d in DIRS:
        for stop in ("deletePeer", "close"):
            b = Sb("bp-slowstop-%s-%s" % (stop, d), [peer(hold=90)])
            b.start()
            c = b.establish(direction=d)
            b.stall(c)
            b.add(stop, peer="p1" if stop == "deletePeer" else "")
            b.adv(3).adv(3).unstall(c).adv(1)
            out.append(b.tag("stall", "stop", "slow").build())
    # the OPEN itself cannot be written
    for d in DIRS:
        b = Sb("bp-open-%s" % d, [peer(hold=9)])
        b.start()
        if d == "out":
            cn = b.newconn()
            b.steps.append(multi(step("dialAccept", peer="p1", conn=cn), step("stall", conn=cn)))
        else:
            cn = b.newconn()
            b.steps.append(multi(step("connect", conn=cn, src="10.0.0.2:40000", dst="10.0.0.1:179"), step("stall", conn=cn)))
        b.adv(5).unstall(cn).open(cn, hold=9).ka(cn).adv(3)
        out.append(b.tag("stall", "racy").build())
    return out


def lis_fail():
    """C10/C05: a listener's Accept fails while Serve runs: Serve stops every peer (Cease first), closes every
    listener and returns that error; Close afterwards still returns; nothing is left behind."""
    out = []
    for nlis in (1, 2, 3):
        for which in range(nlis):
            for sess in ("none", "out", "in", "both-peers", "openSent"):
                ps = [peer("p1", "10.0.0.2"), peer("p2", "10.0.0.3", remoteAS=65003, passive=True)]
                b = Sb("lisfail-%d-%d-%s" % (nlis, which, sess), ps)
                if nlis > 1:
                    b.listeners = ["10.0.0.1:179", "0.0.0.0:179", "[::]:179"][:nlis]
                b.start()
                if sess == "out":
                    b.establish("p1", "out")
                elif sess == "in":
                    b.establish("p1", "in")
                elif sess == "both-peers":
                    b.establish("p1", "out")
                    b.establish("p2", "in", rid="10.0.0.3")
                elif sess == "openSent":
                    b.to_state("openSent", "p1", "out")
                b.add("lisFail", lis=which)
                b.adv(1).add("listPeers")
                c = b.newconn()
                b.add("connect", conn=c, src="10.0.0.3:40009", dst="10.0.0.1:179", lis=nlis - 1)   # nobody accepts any more
                b.adv(1).close()
                out.append(b.tag("stop", "lisfail").build())
    return out


def cease_subcodes(rnd=None):
    """C11/C12: a received Cease never damps, whatever its subcode and data (RFC 4486 subcodes included)."""
    out = []
    for sub in list(range(0, 11)) + [255]:
        for d in DIRS:
            for st in ("openConfirm", "established"):
                if st == "openConfirm" and sub not in (0, 1, 8):
                    continue
                b = Sb("ceasesub-%d-%s-%s" % (sub, d, st), [peer(passive=(d == "in"), idleHold=sec(2))])
                b.start()
                c = b.to_state(st, direction=d)
                data = [0, 1, 1, 0, 0, 0, 100] if sub == 1 else []
                b.notif(c, 6, sub, data)
                if d == "out":
                    b.advu(sec(2) - 1).advu(1)
                c2 = b.establish(direction=d)
                b.adv(1)
                out.append(b.tag("pace", "nodamp", "passive" if d == "in" else "active").build())
    return out


def dial_params():
    """C20/C11: every outbound attempt of a peer goes to its configured port, from its configured local address."""
    out = []
    combos = [(179, "", "10.0.0.2"), (1, "", "10.0.0.2"), (1790, "10.0.0.1", "10.0.0.2"), (65535, "10.0.0.7", "10.0.0.2"),
              (179, "2001:db8::1", "2001:db8::2"), (1179, "", "2001:db8::2")]
    for port, la, remote in combos:
        ps = [peer("p1", remote, port=port, localAddr=la, idleHold=sec(2), connRetry=sec(3)),
              peer("p2", "10.0.0.3", remoteAS=65003, port=179 if port != 179 else 2179, localAddr="10.0.0.1" if not la else "")]
        b = Sb("dialp-%d-%s-%s" % (port, la or "any", remote), ps)
        b.start()
        b.dial_refuse("p1").dial_refuse("p2").advu(sec(2) - 1).advu(1)
        b.adv(3)                                    # connect-retry: the stalled attempts are replaced
        c1 = b.dial_ok("p1")
        b.open(c1, "p1", rid=remote if ":" not in remote else "10.0.0.2").ka(c1)
        c2 = b.dial_ok("p2")
        b.open(c2, "p2", rid="10.0.0.3").ka(c2).rclose(c1).adv(2)
        c3 = b.dial_ok("p1")
        b.adv(1)
        out.append(b.tag("pace", "dialp").build())
    return out


def fsm_points():
    """C01/C09/C10: an FSM goroutine is held right after the PM approved its k-th transition (schedule point
    inside corebgp, hook verifFSMHook), while a stop request or a remote event lands; then it goes on."""
    out = []
    # (direction, k, state entered, what triggers that approval)
    pts = [("out", 3, "openSent", "dial"), ("out", 4, "openConfirm", "open"), ("out", 5, "established", "ka"),
           ("in", 1, "active", "connect"), ("in", 2, "openSent", "connect"), ("in", 3, "openConfirm", "open"), ("in", 4, "established", "ka")]
    for d, k, st, trig in pts:
        for what in ("deletePeer", "close", "rclose", "rreset", "cease", "upd"):
            g = "ent-%s" % d
            b = Sb("fsmpt-%s-%s-%s" % (d, st, what), [peer(gates=["%s#%d" % (g, k)], passive=(d == "in"))])
            b.start()
            c = b.newconn()
            first = step("dialAccept", peer="p1", conn=c) if d == "out" else step("connect", conn=c, src="10.0.0.2:40000", dst="10.0.0.1:179")
            subs = []
            if trig in ("dial", "connect"):
                subs.append(first)
            else:
                b.steps.append(first)
                if trig == "ka":
                    b.open(c)
                subs.append(step("send", conn=c, b=open_msg(65002, 90, ip4("10.0.0.2")) if trig == "open" else keepalive()))
            subs.append(step("yield"))
            if what in ("deletePeer", "close"):
                subs.append(step(what, peer="p1" if what == "deletePeer" else ""))
            elif what in ("rclose", "rreset"):
                subs.append(step(what, conn=c))
            elif what == "cease":
                subs.append(step("send", conn=c, b=notification(6, 0)))
            else:
                subs.append(step("send", conn=c, b=update([1, 2, 3, 4])))
            subs += [step("yield"), step("release", peer="p1", call=g, w=k)]
            b.steps.append(multi(*subs))
            b.adv(1).adv(70)
            out.append(b.tag("fsmpt", "stop" if what in ("deletePeer", "close") else "cell").build())
    return out


def rx_notif_grid():
    """C12/C09: received NOTIFICATION (code, subcode) grid in every state: every code but Cease damps (whatever
    the subcode), Cease never does (whatever the subcode)."""
    out = []
    k = 0
    for st in STATES:
        for code in (1, 2, 3, 4, 5, 6, 7, 8, 255):
            for sub in range(0, 12):
                k += 1
                d = DIRS[k % 2]
                b = Sb("rxgrid-%s-%d-%d-%s" % (st, code, sub, d), [peer(hold=90, idleHold=sec(2), passive=(d == "in"))])
                b.start()
                c = b.to_state(st, direction=d)
                b.notif(c, code, sub, [sub] * (k % 3))
                c2 = b.connect()                       # refused during a hold-down, served otherwise
                b.open(c2).advu(sec(2)).advu(sec(58) - 1).advu(1).adv(1)
                c3 = b.connect()
                b.open(c3).ka(c3).adv(1)
                out.append(b.tag("damp" if code != 6 else "nodamp", "rxgrid").build())
    return out


def life_cycle():
    """C10/C20/C01: Serve / Close in every order: Close before Serve (Serve then returns ErrServerClosed and starts
    nothing), Close twice, Serve twice, peers added before / after, registry queries after the server stopped."""
    out = []
    seqs = {
        "close-serve": ["add", "close", "serve", "list", "adv"],
        "close-add-serve": ["close", "add", "serve", "list", "adv"],
        "close-close-serve": ["add", "close", "close", "serve", "adv", "list"],
        "serve-close-serve": ["add", "serve", "est", "close", "serve", "list", "get", "adv"],
        "serve-close-list": ["add", "serve", "est", "close", "list", "get", "add", "del", "del", "list"],
        "serve-close-close": ["add", "serve", "est", "close", "close", "list"],
        "serve-serve": ["add", "serve", "adv", "serve2", "adv"],
        "serve-lisfail-list": ["add", "serve", "est", "lisfail", "adv", "list", "get", "serve", "close", "list"],
        "empty-close-serve": ["close", "serve", "list"],
        "close-serve-add": ["close", "serve", "add", "adv", "list", "del", "list"],
    }
    for name, seq in seqs.items():
        for passive in (False, True):
            if name == "serve-serve" and passive:
                continue
            ps = [peer("p1", "10.0.0.2", passive=passive), peer("p2", "10.0.0.3", remoteAS=65003, passive=True)]
            b = Sb("life-%s-%s" % (name, "pas" if passive else "act"), ps)
            for o in seq:
                if o == "add":
                    b.add("addPeer", peer="p1")
                elif o == "del":
                    b.add("deletePeer", peer="p1")
                elif o == "get":
                    b.add("getPeer", peer="p1")
                elif o == "list":
                    b.add("listPeers")
                elif o in ("serve", "serve2"):
                    b.add("serve")
                elif o == "close":
                    b.close()
                elif o == "adv":
                    b.adv(7)
                elif o == "lisfail":
                    b.add("lisFail")
                elif o == "est":
                    c = b.establish("p1", "in")
            out.append(b.tag("stop", "life").build())
    return out


def open_gated(rnd):
    """C02: OnOpenMessage takes its time (held at a gate) while the remote keeps sending: the capabilities it was
    given are still the same when it returns (harness oracle), and what follows is handled as usual."""
    out = []
    followers = {"ka": keepalive(), "upd": update([0xAA] * 64), "notif": notification(6, 2, [0x55] * 80),
                 "kaupd": keepalive() + update([0xEE] * 40), "open": None, "junk": [0] * 40}
    for d in DIRS:
        for fn, raw in followers.items():
            caps = [(1, [0, 1, 0, 1]), (64, [0, 120]), (69, [0, 1, 1, 3, 0, 2, 1, 3]), (73, [4, 114, 116, 114, 49, 3, 99, 111, 109]), (2, [])]
            b = Sb("opengate-%s-%s" % (fn, d), [peer(gates=["OnOpenMessage#1"])])
            b.extra_caps = tuple(caps)
            b.start()
            c = b.to_state("openSent", direction=d)
            b.open(c)
            if raw is None:
                b.open(c)
            else:
                b.send(c, raw)
            b.adv(1).add("release", peer="p1", call="OnOpenMessage", w=1)
            b.adv(1).adv(70)
            out.append(b.tag("gate", "opengate").build())
    return out
