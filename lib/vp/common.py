"""Shared plumbing for the vcheck driver: paths, builds, TLC, evidence, findings."""
import json
import os
import re
import shutil
import subprocess
import sys
import time

ROOT = "/verif"
# VERIF_REPO (development aid only): run against a scratch worktree instead of /repo, so that seeded
# changes can be tried without touching /repo.  The registered commands never set it.
REPO = os.environ.get("VERIF_REPO", "/repo")
SPEC = os.path.join(ROOT, "spec")
HARNESS = os.path.join(ROOT, "harness")
GO = "go1.26.8"
NCPU = os.cpu_count() or 4

GOENV = dict(os.environ, GOFLAGS="-mod=mod", GOPROXY="off", GOSUMDB="off", GOTOOLCHAIN="local",
             CGO_ENABLED="1")


class Inconclusive(Exception):
    """Machinery failure (build, TLC crash, timeout): exit 2, never a violation."""


def seed():
    try:
        return int(os.environ.get("VERIF_SEED", "1"))
    except ValueError:
        return 1


class Work:
    """Scratch directory /verif/.work/<id>.<pid>, removed on close."""

    def __init__(self, pid_tag):
        self.dir = os.path.join(ROOT, ".work", "%s.%d" % (pid_tag, os.getpid()))
        shutil.rmtree(self.dir, ignore_errors=True)
        os.makedirs(self.dir)

    def path(self, *a):
        return os.path.join(self.dir, *a)

    def sub(self, name):
        p = self.path(name)
        os.makedirs(p, exist_ok=True)
        return p

    def close(self):
        shutil.rmtree(self.dir, ignore_errors=True)


def run(cmd, cwd=None, env=None, timeout=None, stdout=None):
    try:
        return subprocess.run(cmd, cwd=cwd, env=env, timeout=timeout, stdout=stdout or subprocess.PIPE,
                              stderr=subprocess.STDOUT, text=True)
    except subprocess.TimeoutExpired as e:
        raise Inconclusive("timeout: %s" % " ".join(cmd[:4])) from e


def build_go(work, pkg, out_name, test=True, race=True):
    """Build a harness binary from /repo's current working tree (tag verif)."""
    hdir = HARNESS
    if REPO != "/repo":
        hdir = work.path("harness")
        if not os.path.isdir(hdir):
            shutil.copytree(HARNESS, hdir)
            with open(os.path.join(hdir, "go.mod")) as f:
                gm = f.read()
            with open(os.path.join(hdir, "go.mod"), "w") as f:
                f.write(gm.replace("=> /repo", "=> " + REPO))
    shutil.copy(os.path.join(REPO, "go.sum"), os.path.join(hdir, "go.sum"))
    out = work.path(out_name)
    cmd = [GO, "test", "-c"] if test else [GO, "build"]
    cmd += ["-tags", "verif"]
    if race:
        cmd += ["-race"]
    cmd += ["-o", out, pkg]
    r = run(cmd, cwd=hdir, env=GOENV, timeout=900)
    if r.returncode != 0 or not os.path.exists(out):
        raise Inconclusive("harness build failed:\n" + r.stdout[-3000:])
    return out


_STATS = re.compile(r"(\d+) states generated, (\d+) distinct states found, (\d+) states left")


class TLCResult:
    def __init__(self, rc, out):
        self.rc = rc
        self.out = out
        m = None
        for m in _STATS.finditer(out):
            pass
        self.generated = int(m.group(1)) if m else 0
        self.distinct = int(m.group(2)) if m else 0
        self.left = int(m.group(3)) if m else 0
        self.ok = (rc == 0 and "Model checking completed. No error has been found." in out)
        self.violated = re.findall(r"Invariant (\w+) is violated", out)
        hw = re.search(r'"HIGHWATER", (\d+), (\d+)', out)
        self.highwater = int(hw.group(1)) if hw else None
        self.post_false = "Postcondition" in out and "is false" in out
        self.crashed = not self.ok and not self.violated and not self.post_false


def tlc(workdir, module, cfg, workers=1, timeout=1800, extra=(), xss=True, heap=None):
    """Run TLC in workdir (which must contain the modules and cfg)."""
    env = dict(os.environ)
    opts = []
    if xss:
        opts.append("-Xss512m")
    if heap:
        opts.append("-Xmx%s" % heap)
    if opts:
        env["JAVA_TOOL_OPTIONS"] = " ".join(opts)
    import uuid
    meta = os.path.join(workdir, "meta." + uuid.uuid4().hex)
    cmd = ["tlc", "-workers", str(workers), "-metadir", meta, "-config", cfg] + list(extra) + [module]
    r = run(cmd, cwd=workdir, env=env, timeout=timeout)
    shutil.rmtree(meta, ignore_errors=True)
    return TLCResult(r.returncode, r.stdout)


def copy_specs(dst):
    for f in os.listdir(SPEC):
        if f.endswith(".tla"):
            shutil.copy(os.path.join(SPEC, f), dst)


# ---------------------------------------------------------------- findings

def load_findings():
    p = os.path.join(ROOT, "known_findings.json")
    if not os.path.exists(p):
        return []
    with open(p) as f:
        return json.load(f)["findings"]


def open_findings(prop):
    """open findings this check must tolerate: its own, and others' that its scripts can also run into"""
    return [f for f in load_findings()
            if f["status"] == "open" and (f["property"] == prop or prop in f.get("also", []))]


# ---------------------------------------------------------------- evidence

def write_evidence(prop, tier, cov, wall, violations, assumptions):
    if os.environ.get("VERIF_EVIDENCE_DIR"):      # development aid: keep /verif/evidence for runs against /repo
        return _write_evidence(os.environ["VERIF_EVIDENCE_DIR"], prop, tier, cov, wall, violations, assumptions)
    return _write_evidence(os.path.join(ROOT, "evidence"), prop, tier, cov, wall, violations, assumptions)


def _write_evidence(edir, prop, tier, cov, wall, violations, assumptions):
    os.makedirs(edir, exist_ok=True)
    cov.setdefault("states", 0)
    cov.setdefault("transitions", 0)
    cov.setdefault("traces_validated_against_impl", 0)
    cov.setdefault("samples", [])
    cov.setdefault("evaluations", 0)
    cov.setdefault("distinct_nontrivial", 0)
    ev = {"property_id": prop, "tier": tier, "seed": seed(), "level": "model_checking",
          "coverage": cov, "assumptions": assumptions, "wall_s": round(wall, 2),
          "violations": violations}
    tmp = os.path.join(edir, ".%s.%d.tmp" % (prop, os.getpid()))
    with open(tmp, "w") as f:
        json.dump(ev, f, indent=1, sort_keys=True)
    os.replace(tmp, os.path.join(edir, prop + ".json"))


def save_replay(prop, name, obj):
    d = os.path.join(ROOT, "replays")
    os.makedirs(d, exist_ok=True)
    p = os.path.join(d, "%s-%s.json" % (prop, re.sub(r"[^A-Za-z0-9_.-]", "_", name)[:80]))
    with open(p, "w") as f:
        json.dump(obj, f)
    return p


def log(*a):
    print(*a, file=sys.stderr, flush=True)
