"""Checks for the pure (codec / decoder) half: real calls recorded by the unit runner,
every recorded call evaluated by TLC against the functional TLA+ modules (PureOracle.tla)."""
import hashlib
import json
import os
import re
import shutil
import time
from concurrent.futures import ThreadPoolExecutor

from . import common as C

CFG = ("SPECIFICATION Spec\nCONSTANTS\n  KnownD10 = %s\n  CaseFile = \"%s\"\n"
       "INVARIANT Checked\nCHECK_DEADLOCK FALSE\n")


def build(work):
    return C.build_go(work, "./unit/", "unit", test=False, race=False)


def _eval_shard(d, fname, known):
    cfgname = "po.%s.cfg" % fname
    with open(os.path.join(d, cfgname), "w") as f:
        f.write(CFG % ("TRUE" if known else "FALSE", fname))
    r = C.tlc(d, "PureOracle.tla", cfgname, workers=1, timeout=3600, heap="3g")
    if not r.ok:
        raise C.Inconclusive("TLC failed evaluating %s:\n%s" % (fname, r.out[-2500:]))
    return r, [int(m) for m in re.findall(r'"MISMATCH", (\d+)', r.out)]


def case_key(c):
    k = {x: v for x, v in c.items() if x != "r"}
    return hashlib.sha1(json.dumps(k, sort_keys=True).encode()).hexdigest()


def short(c, n=400):
    s = json.dumps(c, sort_keys=True)
    return s if len(s) <= n else s[:n] + "...(%d chars)" % len(s)


def run_families(work, binary, families, tier, shards=None):
    """Returns dict(cases, states, distinct, mismatches=[case...], known=[case...], samples=[...])"""
    shards = shards or C.NCPU
    d = work.sub("pure")
    C.copy_specs(d)
    files = []
    total = 0
    for fam in families:
        fd = os.path.join(d, fam)
        os.makedirs(fd)
        r = C.run([binary, fam, tier, str(C.seed()), fd, str(shards)], timeout=3600)
        if r.returncode != 0:
            raise C.Inconclusive("unit runner failed for %s:\n%s" % (fam, r.stdout[-2000:]))
        for k in range(shards):
            src = os.path.join(fd, "cases.%d.ndjson" % k)
            if os.path.getsize(src) == 0:
                continue
            name = "cases.%s.%d.ndjson" % (fam, k)
            os.replace(src, os.path.join(d, name))
            files.append(name)
    states = 0
    mism = []
    keys = set()
    samples = []

    def ev(name):
        return name, _eval_shard(d, name, False)

    with ThreadPoolExecutor(max_workers=C.NCPU) as ex:
        for name, (r, idx) in ex.map(ev, files):
            states += r.distinct
            with open(os.path.join(d, name)) as f:
                lines = f.readlines()
            total += len(lines)
            for ln in lines:
                keys.add(hashlib.sha1(ln.split('"r":')[0].encode()).digest()[:8])
            if len(samples) < 4 and lines:
                samples.append(short(json.loads(lines[len(lines) // 2]), 300))
            for i in idx:
                mism.append(json.loads(lines[i - 1]))
    known = []
    if mism:
        # match known findings by the specification: re-evaluate the mismatches with the switches on
        with open(os.path.join(d, "mism.ndjson"), "w") as f:
            for c in mism:
                f.write(json.dumps(c) + "\n")
        r, idx = _eval_shard(d, "mism.ndjson", True)
        still = set(idx)
        known = [c for i, c in enumerate(mism, 1) if i not in still]
        mism = [c for i, c in enumerate(mism, 1) if i in still]
    shutil.rmtree(d, ignore_errors=True)
    return {"cases": total, "states": states, "distinct": len(keys), "mismatches": mism, "known": known,
            "samples": samples}


PROPS = {
    "C15": dict(families=["codec"],
                rule="NOTIFICATION (code, subcode) grid x data lengths encode->decode; NOTIFICATION/OPEN bodies decode->re-encode "
                     "(field/TLV builder, all short strings over a protocol alphabet in the parameter region, random bodies to "
                     "4077); representable OPEN views encode->decode; add-path tuples (all 256 send/receive octets) and capability "
                     "helpers; distinct by input"),
    "C16": dict(families=["update", "big"],
                rule="UPDATE bodies: every string <= 4 (quick) / 6 (thorough) over a 12-letter protocol alphabet, every attribute "
                     "block <= 5/6 over a 6-letter alphabet, grammar builder with length perturbations / duplicates / truncations, "
                     "random bodies to 4077, bodies above 65535 with extreme length fields; the recorded callback sequence must "
                     "equal Update!Run byte for byte"),
    "C17": dict(families=["update", "errtree"],
                rule="the C16 bodies x callback reply scripts (nil / discard / withdraw / notification / foreign / joined / wrapped at "
                     "random positions) and random error trees (depth <= 3) through UpdateNotificationFromErr"),
    "C18": dict(families=["attrs"],
                rule="11 attribute types x (all 256 flag octets on 3 values + a value set: all strings <= 2 over {0,1,2,3,255}, every "
                     "length 0..13, boundary lengths to 4096, AS_PATH segment builder, community unit +-3) x 3 flag settings"),
    "C19": dict(families=["prefix"],
                rule="six prefix entry points x every prefix length 0..32 / 0..128 (+ illegal lengths) x fills x every truncation and "
                     "+-1 length corruption, random lists of 2-3 prefixes with truncation / bit flips; MP_REACH with all 256 next-hop "
                     "length octets x sizes, all 256 flag octets; MP_UNREACH sizes; IPv6 next hops of length 0..50"),
}

ASSUME = ["the unit runner calls the real exported functions (and unexported codecs through the verif-tagged shim) built from /repo",
          "TLC evaluates the functional TLA+ modules (written from the RFCs) on every recorded call; generation is seeded (VERIF_SEED)",
          "inputs are finite samples / bounded-exhaustive enumerations of the quantifier's domain"]


def report(prop, tier, res, t0, extra_cov=None, families=None):
    findings = C.open_findings(prop)
    cov = {"states": res["states"], "transitions": res["states"],
           "traces_validated_against_impl": res["cases"] - len(res["mismatches"]) - len(res["known"]),
           "evaluations": res["cases"], "distinct_nontrivial": res["distinct"],
           "rule": PROPS[prop]["rule"] if prop in PROPS else "", "samples": res["samples"] or ["none"],
           "families": families or [], "known_findings_matched": len(res["known"]), "exhaustive": False}
    if extra_cov:
        cov.update(extra_cov)
    viol = []
    for c in res["mismatches"][:10]:
        p = C.save_replay(prop, "%s-%s" % (c.get("f", "case"), case_key(c)[:10]), {"property": prop, "kind": "pure", "case": c})
        viol.append(p)
    C.write_evidence(prop, tier, cov, time.time() - t0, len(res["mismatches"]), ASSUME)
    for f in findings:
        if f["property"] == prop:
            print("KNOWN-FINDING: property=%s %s [%s]" % (
                prop, f["what"], ("%d recorded cases match" % len(res["known"])) if res["known"] else "not triggered in this run"))
    if res["known"] and not any(f["property"] == prop for f in findings):
        # mismatches explained only by a switch whose finding is not listed for this property: still violations
        for c in res["known"][:10]:
            p = C.save_replay(prop, "%s-%s" % (c.get("f", "case"), case_key(c)[:10]), {"property": prop, "kind": "pure", "case": c})
            viol.append(p)
    for p in viol:
        print("VIOLATION property=%s replay=%s" % (prop, p))
    if res["mismatches"]:
        C.log("first mismatching case: " + short(res["mismatches"][0], 600))
    return 1 if viol else 0


def run_lemmas(work):
    """TLC checks the laws of the functional modules themselves (Lemmas.tla) over bounded domains."""
    d = work.sub("lemmas")
    C.copy_specs(d)
    shutil.copy(os.path.join(C.SPEC, "cfg", "Lemmas.cfg"), d)
    r = C.tlc(d, "Lemmas.tla", "Lemmas.cfg", workers=4, timeout=1200, heap="4g")
    shutil.rmtree(d, ignore_errors=True)
    if not r.ok:
        raise C.Inconclusive("a law of the functional specification modules failed (specification-level):\n" + r.out[-2500:])
    return {"module": "Lemmas", "domain_elements": r.distinct, "generated": r.generated}


def check(prop, tier):
    t0 = time.time()
    work = C.Work(prop)
    try:
        lem = run_lemmas(work)
        binary = build(work)
        res = run_families(work, binary, PROPS[prop]["families"], tier)
        if res["cases"] == 0:
            raise C.Inconclusive("no case evaluated")
        res["states"] += lem["domain_elements"]
        return report(prop, tier, res, t0, extra_cov={"specification_laws": lem}, families=PROPS[prop]["families"])
    finally:
        work.close()


def replay(prop, path):
    """Re-run the recorded input on the current code and evaluate it again."""
    with open(path) as f:
        rp = json.load(f)
    work = C.Work(prop + ".replay")
    try:
        d = work.sub("pure")
        C.copy_specs(d)
        # the recorded case keeps its input; the unit runner has no single-case mode, so the recorded
        # outcome is re-evaluated and the family regenerated to see whether the mismatch persists
        binary = build(work)
        fam = {"attr": "attrs", "prefix": "prefix", "mpreach": "prefix", "mpunreach": "prefix", "v6nh": "prefix",
               "update": "update", "errtree": "errtree", "openval": "openval", "newopen": "openenc",
               "deframe": "deframe", "addpeer": "registry", "newserver": "registry"}.get(rp["case"].get("f"), "codec")
        res = run_families(work, binary, [fam] + (["big"] if fam == "update" else []), "quick")
        key = case_key(rp["case"])
        hit = [c for c in res["mismatches"] + res["known"] if case_key(c) == key]
        if hit or res["mismatches"]:
            print("VIOLATION property=%s replay=%s" % (prop, path))
            return 1
        print("replay: the family of the recorded case (%s) now evaluates without mismatch" % fam)
        return 0
    finally:
        work.close()
