"""Per-property definitions for the concurrent half (C01..C14, C20 life cycle)."""
import os
import sys

sys.path.insert(0, os.path.join(os.path.dirname(__file__), ".."))
import scripts as S  # noqa: E402
from . import syscheck  # noqa: E402
from . import common as C  # noqa: E402


def mc_pair(alphabet, conns=2, msgs=2, passive=False, dials=1, known_d14=False, workers=None, timeout=3000):
    cfg = ("SPECIFICATION MCSpec\nCONSTANTS\n  Timed = FALSE\n  RecordOut = FALSE\n  KnownD14 = %s\n"
           "  MaxConns = %d\n  MaxMsgs = %d\n  MCPassive = %s\n  MaxDials = %d\n  Alphabet = {%s}\n"
           "INVARIANT AllInv\nCHECK_DEADLOCK FALSE\nVIEW View\n") % (
        "TRUE" if known_d14 else "FALSE", conns, msgs, "TRUE" if passive else "FALSE", dials,
        ", ".join('"%s"' % a for a in alphabet))
    return ("MC_Pair", cfg, workers or C.NCPU, timeout)


def mc_api(maxcalls=4, ops=("addPeer", "deletePeer", "serve", "close", "getPeer", "listPeers"), workers=None, timeout=3000):
    cfg = ("SPECIFICATION ASpec\nCONSTANTS\n  Timed = FALSE\n  RecordOut = FALSE\n  KnownD14 = FALSE\n  MaxCalls = %d\n"
           "  ApiOps = {%s}\nINVARIANT ApiInv\nCHECK_DEADLOCK FALSE\nVIEW AView\n") % (
        maxcalls, ", ".join('"%s"' % o for o in ops))
    return ("MC_Api", cfg, workers or C.NCPU, timeout)


def mc_timed(maxnow=14, conns=2, msgs=3, passive=False, alphabet=("open3", "ka", "notif"), inv="TimedInv", reach=False,
             workers=None, timeout=3000, stall=False):
    """MC_Timed: explicit (scaled) time; hold/keepalive timers, dial pacing, hold-down ladder."""
    cfg = ("SPECIFICATION TSpec\nCONSTANTS\n  Timed = TRUE\n  RecordOut = FALSE\n  KnownD14 = FALSE\n  MaxNow = %d\n"
           "  TMaxConns = %d\n  TMaxMsgs = %d\n  TPassive = %s\n  TAlphabet = {%s}\n  TStall = %s\n"
           "  Sec <- TSec\n  LongHold <- TLongHold\n  DampMin <- TDampMin\n  DampMax <- TDampMax\n  Amnesia <- TAmnesia\n"
           "INVARIANT %s\nCHECK_DEADLOCK FALSE\nVIEW TView\n") % (
        maxnow, conns, msgs, "TRUE" if passive else "FALSE", ", ".join('"%s"' % a for a in alphabet),
        "TRUE" if stall else "FALSE", inv)
    t = ("MC_Timed", cfg, workers or C.NCPU, timeout)
    return t + (inv,) if reach else t


# unbounded time, real constants: the ladder's rule as an inductive invariant of Damp.tla (shares DampFn!NextDelay with CoreBGP.tla)
AP_DAMP = ("apalache", "Damp", [("Init", "IndInv", 0), ("IndInit", "IndInv", 1)])

# the hold-down ladder reaches its cap and the amnesia reset (passive peer, one NOTIFICATION per connection): 5 s each
MC_DAMP = [mc_timed(26, 2, 1, True, ("notif",)), mc_timed(14, 3, 1, True, ("notif",)),
           mc_timed(14, 3, 1, True, ("notif",), inv="NeverMax", reach=True),
           mc_timed(26, 2, 1, True, ("notif",), inv="NeverAmnesia", reach=True), AP_DAMP]


def mc_live_in(workers=4, timeout=1200):
    """MC_Live, inbound configuration: <>[]Established under fairness after a finite fault budget (liveness half of C11)."""
    return ("MC_Live", open(os.path.join(C.ROOT, "spec", "cfg", "MC_Live_in.cfg")).read(), workers, timeout)


def has_cb(res, name, n=1):
    return sum(1 for e in syscheck.events_of(res) if e["e"] == "cb" and e["n"] == name) >= n


def wrote(res, pred):
    return any(e["e"] == "w" and pred(e["b"]) for e in syscheck.events_of(res))


def is_notif(b, code=None, sub=None):
    return len(b) >= 21 and b[18] == 3 and (code is None or b[19] == code) and (sub is None or b[20] == sub)


BASE_ASSUME = [
    "executions run inside a testing/synctest bubble (virtual clock) over an in-memory network; kernel TCP behaviour is not exercised",
    "Go >= 1.23 timer semantics (the harness module selects them); plugin callbacks return promptly and never call the Server API",
    "TLC explores the specification exhaustively only for the stated constants; trace validation covers exactly the recorded executions",
]


def sample(lst, rnd, n):
    lst = list(lst)
    if len(lst) <= n:
        return lst
    rnd.shuffle(lst)
    return lst[:n]


def thorough_pacing(rnd):
    return S.pacing()


PROPS = {}


def prop(pid, **kw):
    kw.setdefault("assumptions", BASE_ASSUME)
    kw.setdefault("end_oracles", set())
    PROPS[pid] = kw


prop("C01",
     specgen=(40, 1500),
     scripts=lambda tier, rnd: S.basic() + S.collision() + S.stop_points() + S.reaction_table() + S.gated() + S.fsm_points() + S.api_races() + S.life_cycle() + [x for x in S.rx_notif_grid() if "-openSent-2-" in x["id"]] + S.two_sessions() + S.pm_busy() + S.pm_gates() +
     sample(S.pacing(), rnd, 200 if tier == "thorough" else 30) + S.collision_racy(rnd, 400 if tier == "thorough" else 10) +
     (S.damping() + S.writers() + S.registry(rnd, 120) if tier == "thorough" else sample(S.damping(), rnd, 10)),
     mc=lambda tier: [mc_pair(["openLo", "ka"])] if tier == "quick" else
     [mc_pair(["openLo", "ka", "upd"], dials=2), mc_pair(["openHi", "ka", "cease"], dials=2),
      mc_pair(["openLo", "ka", "notif"], passive=True, conns=2, msgs=3)],
     nontrivial=lambda s, r: has_cb(r, "OnEstablished"),
     end_oracles={"overlap"},
     rule="scripts = environment scripts (connects, dial outcomes, messages, faults, timer advances, API calls) replayed on the real "
          "code; non-trivial = the recorded trace contains at least one OnEstablished callback; distinct by script content hash")

prop("C07",
     specgen=(30, 800),
     scripts=lambda tier, rnd: S.collision() + [x for x in S.backpressure() if "-collision-" in x["id"]] + [x for x in S.gated() if "collision" in x["tags"]] + S.pm_busy() + S.pm_gates() +
     [x for x in S.stop_dial_race(6 if tier == "thorough" else 3) if "-est-" in x["id"]] +
     (S.collision_racy(rnd, 400 if tier == "thorough" else 8)),
     mc=lambda tier: [mc_pair(["openLo", "ka"])] if tier == "quick" else
     [mc_pair(["openLo", "ka", "cease"], dials=2), mc_pair(["openHi", "ka", "cease"], dials=2),
      mc_pair(["openLo", "openHi", "ka"], dials=1)],
     nontrivial=lambda s, r: has_cb(r, "OnOpenMessage", 2),
     rule="collision scripts: {id <,>,= with AS <,>} x which connection opens first x whose OPEN arrives first x where the "
          "KEEPALIVEs go, plus Established-first and faults racing with resolution; non-trivial = both connections' OPENs were "
          "accepted (two OnOpenMessage callbacks)")

prop("C09",
     specgen=(40, 1200),
     scripts=lambda tier, rnd: S.reaction_table() + [x for x in S.backpressure() if "notif" in x["tags"] or "end" in x["tags"]] + S.gated() + S.gated_update_eof() + S.fsm_points() + S.fin_mid_message() + sample(S.two_sessions(), rnd, 21 if tier == "thorough" else 8) +
     (S.notif_values(rnd, 600 if tier == "thorough" else 30)) +
     sample(S.trailing(), rnd, 176 if tier == "thorough" else 30) + sample(S.pacing(), rnd, 60 if tier == "thorough" else 15),
     mc=lambda tier: [mc_pair(["openLo", "ka", "upd"], conns=1, msgs=3)] if tier == "quick" else
     [mc_pair(["openLo", "ka", "upd", "cease", "notif", "fault", "openBad"], conns=1, msgs=3, dials=2),
      mc_pair(["openLo", "ka", "upd", "notif"], conns=2, msgs=2, dials=1)],
     nontrivial=lambda s, r: "cell" in s.get("tags", ()) or "nval" in s.get("tags", ()),
     rule="every (state, message type, direction) cell incl. NOTIFICATION values, EOF and reset, each followed by a re-establishment "
          "probe; non-trivial = the script reached the cell's state and delivered the message")

prop("C10",
     specgen=(40, 1500),
     scripts=lambda tier, rnd: S.stop_points() + [x for x in S.backpressure() if "stop" in x["tags"] or "end" in x["tags"]] + S.lis_fail() + S.life_cycle() + [x for x in S.admission() if "-other" in x["id"] or "unspec" in x["id"]][:16] + [x for x in S.trailing() if "kabody" in x["id"] or "bigupd" in x["id"]] + [x for x in S.slow_callbacks() if "end" in x["tags"]] + S.gated() + S.fsm_points() + S.api_races() + S.pm_busy() + S.pm_gates() + S.close_race_connect(12 if tier == "thorough" else 4) + S.stop_dial_race(12 if tier == "thorough" else 3) +
     S.stop_everywhere(rnd, 1200 if tier == "thorough" else 60),
     mc=lambda tier: [mc_pair(["openLo", "ka"])] if tier == "quick" else
     [mc_pair(["openLo", "ka", "upd"], dials=2), mc_pair(["openHi", "ka", "notif"], dials=2),
      mc_api(5, ops=("addPeer", "deletePeer", "serve", "close"))],
     nontrivial=lambda s, r: any(e["e"] == "ret" and e["n"] in ("close", "deletePeer") for e in syscheck.events_of(r)),
     end_oracles={"leak", "unclosed", "overlap"},
     rule="Close / DeletePeer issued at every quiescent prefix of connection scripts (all FSM states, both directions, collision, "
          "damping, active writers), racing with callbacks / the PM / an FSM held at gates, listener errors, blocked Cease writes; oracles: TLC trace validation, race detector, goroutine-leak and unclosed-connection checks at "
          "the end of every script; non-trivial = a Close or DeletePeer returned in the trace")

prop("C12",
     specgen=(30, 1000),
     scripts=lambda tier, rnd: S.damping() + S.damping_exact() + S.cease_subcodes() + (S.rx_notif_grid() if tier == "thorough" else [x for x in S.rx_notif_grid() if "-openSent-" in x["id"]] + sample([x for x in S.rx_notif_grid() if "-openSent-" not in x["id"]], rnd, 40)) + S.pm_gates() + sample(S.fin_mid_message(), rnd, 24 if tier == "thorough" else 8) + (S.damping_matrix() if tier == "thorough" else sample(S.damping_matrix(), rnd, 60)) + S.collision_racy(rnd, 300 if tier == "thorough" else 12) +
     (S.damping_random(rnd, 500) if tier == "thorough" else S.damping_random(rnd, 15)),
     mc=lambda tier: [mc_pair(["openLo", "ka", "notif"])] + MC_DAMP if tier == "quick" else
     [mc_pair(["openLo", "ka", "notif", "cease"], dials=2), mc_pair(["openLo", "ka", "fault", "openBad"], dials=2)] + MC_DAMP +
     [mc_timed(18, 3, 1, False, ("notif",)), mc_timed(14, 2, 3, False, ("open3", "ka", "notif"))],
     nontrivial=lambda s, r: "damp" in s.get("tags", ()) or "nodamp" in s.get("tags", ()),
     rule="error kinds (received codes 1-5,7; sent header/OPEN/FSM/hold/handler errors) x direction, probes 1/3 ms around every "
          "threshold (60 s, doubling, 300 s cap, 300 s amnesia), and non-damping faults; exact virtual time")

prop("C11",
     specgen=(30, 1000),
     scripts=lambda tier, rnd: S.inbound_drop() + S.cease_subcodes() + S.dial_params() + [x for x in S.collision() if "keptdies" in x["tags"] or "afterin" in x["tags"]] + [x for x in S.pacing() if "refuse-long" in x["id"]] + (S.pacing() if tier == "thorough" else sample(S.pacing(), rnd, 70)),
     mc=lambda tier: [mc_pair(["openLo", "ka", "cease"], conns=1, msgs=3, dials=3), mc_timed(10, 1, 3, False, ("open3", "ka", "cease")),
                      mc_timed(9, 2, 2, False, ("open3", "cease")), mc_timed(12, 2, 3, True, ("open3", "ka", "cease")), mc_live_in()] if tier == "quick" else
     [mc_pair(["openLo", "ka", "cease"], conns=2, msgs=2, dials=3), mc_timed(14, 2, 3, False, ("open3", "ka", "notif")),
      mc_timed(12, 2, 3, True, ("open3", "ka", "cease")), mc_timed(12, 2, 2, False, ("open3", "cease")), mc_live_in()],
     nontrivial=lambda s, r: sum(1 for e in syscheck.events_of(r) if e["e"] == "dial") >= 2 or "passive" in s.get("tags", ()),
     rule="fault sequences over {refuse, EOF at state s, Cease, stall, reset} x (idle-hold, connect-retry) settings followed by a "
          "cooperative remote; dial attempts carry exact virtual timestamps; non-trivial = at least two dial attempts (or passive)")

prop("C06",
     scripts=lambda tier, rnd: S.two_sessions() + S.slow_callbacks() + S.backpressure() + S.holdgrid() if tier == "quick" else S.two_sessions() + S.slow_callbacks() + S.backpressure() +
     S.holdgrid([(a, b) for a in (0, 3, 4, 9, 10, 30, 90, 180, 240, 65535) for b in (0, 3, 4, 9, 10, 30, 90, 180, 240, 65535)],
                rnd, 60),
     mc=lambda tier: [mc_pair(["openLo", "ka", "upd"], conns=1, msgs=3), mc_timed(14, 1, 4, False, ("open3", "open0", "ka", "upd")),
                      mc_timed(10, 1, 3, False, ("open3", "ka"), inv="NeverEstablished", reach=True)] +
     ([mc_timed(12, 2, 3, False, ("open9", "open0", "ka", "upd")),
       mc_timed(8, 1, 3, False, ("open3", "ka", "upd"), stall=True)] if tier == "thorough" else []),
     nontrivial=lambda s, r: has_cb(r, "OnOpenMessage"),
     rule="(local, remote) hold-time grid x traffic patterns (silent, KEEPALIVE-only, UPDATE-only with and without a handler, late, "
          "slow KEEPALIVE, local writes), second sessions, slow callbacks, blocked writes (back-pressure); every "
          "KEEPALIVE and Hold Timer Expired NOTIFICATION must carry exactly the specified virtual timestamp")

prop("C04",
     scripts=lambda tier, rnd: S.writers() + S.backpressure() + [x for x in S.gated() if "onest" in x["id"] or "update" in x["id"]] + S.two_sessions() + S.slow_callbacks() + S.writers_random(rnd, 500 if tier == "thorough" else 12),
     mc=lambda tier: [mc_pair(["openLo", "ka", "upd"], conns=1, msgs=3)] +
     ([mc_timed(8, 1, 3, False, ("open3", "ka", "upd"), stall=True)] if tier == "thorough" else [mc_timed(5, 1, 3, False, ("open3", "ka"), stall=True)]),
     nontrivial=lambda s, r: any(e["e"] == "ret" and e["n"] in ("write", "writeCb") for e in syscheck.events_of(r)),
     end_oracles={"wedge"},       # "WriteUpdate may be called from inside the callbacks without deadlock"
     rule="WriteUpdate from callbacks and from application goroutines x body lengths {0,1,4077} x keepalive collisions x remote "
          "that stops reading (writes of every kind blocked, then completed / reset / closed under them) x "
          "teardown kinds x stale writers; every conn.Write must be exactly one well-formed frame")

prop("C03",
     scripts=lambda tier, rnd: S.segmentation(rnd) + S.two_sessions() + S.gated_update_eof() + S.slow_callbacks() + [x for x in S.backpressure() if "-handler-" in x["id"] or "callbacks" in x["id"]] +
     (S.segmentation_long(rnd, 40) if tier == "thorough" else []),
     mc=lambda tier: [mc_pair(["openLo", "ka", "upd"], conns=1, msgs=3)],
     nontrivial=lambda s, r: has_cb(r, "Update"),
     end_oracles={"intact"},
     rule="UPDATE/KEEPALIVE sequences (body lengths 0,1,3,4,23,4076,4077) x segmentations (one write, 1-byte, header cut "
          "points, random, several stimuli) x handler replies; non-trivial = at least one UPDATE reached the handler")

prop("C08",
     scripts=lambda tier, rnd: S.headers(rnd) + sample(S.notif_out(rnd), rnd, 60) + sample(S.trailing(), rnd, 30) + sample(S.segmentation(rnd), rnd, 30)
     if tier == "quick" else S.trailing() + S.notif_out(rnd) + S.segmentation(rnd) +
     S.headers(rnd) + S.headers(rnd, lengths=sorted(set(rnd.randrange(65536) for _ in range(150))),
                                types=list(range(0, 256, 5))),
     mc=lambda tier: [mc_pair(["openLo", "ka", "fault"], conns=1, msgs=3)],
     nontrivial=lambda s, r: "hdr" in s.get("tags", ()),
     pure=["deframe"],
     rule="headers (16 marker positions x 2 values, boundary lengths, types) x state x direction x preceding messages x "
          "segmentation, end-to-end; the NOTIFICATION on the wire must be byte-exact")

prop("C02",
     pure=["openval"],
     scripts=lambda tier, rnd: S.open_gated(rnd) + (S.open_cases(rnd, limit_per_cfg=45, random_bodies=4) if tier == "quick" else
                                                    S.open_cases(rnd, random_bodies=200)),
     end_oracles={"intact"},
     mc=lambda tier: [mc_pair(["openLo", "openBad", "ka"], conns=1, msgs=3)],
     nontrivial=lambda s, r: True,
     rule="OPEN bodies from the field/TLV/perturbation builder (+ random bodies) x 5 AS/identifier configurations x direction, "
          "end-to-end through OpenSent; accepted iff Open!Acceptable, refusal NOTIFICATION must satisfy Open!Applies")

prop("C14",
     pure=["openenc"],
     scripts=lambda tier, rnd: S.open_encode(rnd, 20 if tier == "quick" else 400) + S.two_sessions() + sample(S.pacing(), rnd, 40 if tier == "thorough" else 10),
     mc=lambda tier: [mc_pair(["openLo", "ka"], conns=1, msgs=2)],
     nontrivial=lambda s, r: True,
     rule="local AS / hold time / router id x plugin capability lists (incl. code 65, oversize values, totals straddling 253); "
          "the OPEN on the wire must equal Open!OpenMsg byte for byte, or no OPEN at all when unrepresentable")

prop("C13",
     scripts=lambda tier, rnd: S.admission() + S.multi_listener() + S.pm_busy() + [x for x in S.pm_gates() if "err-connect" in x["id"]] + S.damping_exact() + [x for x in S.damping_matrix() if "-in" in x["id"] and ("badopen" in x["id"] or "hdr-" in x["id"] or "unexp" in x["id"] or "veto" in x["id"] or "handler" in x["id"] or "holdexp" in x["id"])] + sample(S.inbound_drop(), rnd, 22 if tier == "thorough" else 8),
     mc=lambda tier: [mc_pair(["openLo", "ka", "notif"], conns=2, msgs=2)] if tier == "quick" else
     [mc_pair(["openLo", "ka", "notif", "cease"], conns=2, msgs=2, dials=2), mc_pair(["openHi", "ka", "upd"], conns=2, msgs=2, passive=True)],
     nontrivial=lambda s, r: any(e["e"] == "acc" for e in syscheck.events_of(r)),
     end_oracles={"wedge"},       # "... and it has no effect on existing sessions" (nor on later connections)
     rule="peer sets x (source, destination) pairs incl. IPv6 and IPv4-mapped x peer state at arrival; a refused connection "
          "sees no byte and no callback")

prop("C20",
     pure=["registry"],
     scripts=lambda tier, rnd: S.registry(rnd, 60 if tier == "quick" else 2000) + S.api_races() + S.life_cycle() + S.dial_params() +
     [x for x in S.multi_listener() if "dual" in x["id"]] + (S.add_storm() if tier == "quick" else S.add_storm(60, 12)),
     mc=lambda tier: [mc_api(4)] if tier == "quick" else
     [mc_api(4), mc_api(5, ops=("addPeer", "deletePeer", "serve", "close"))],
     nontrivial=lambda s, r: sum(1 for e in syscheck.events_of(r) if e["e"] == "ret") >= 3,
     rule="random registry operation sequences (AddPeer/DeletePeer/GetPeer/ListPeers/Serve/Close, inbound handshakes) before, "
          "during and after Serve; every return value must be the one Server's specification gives")

prop("C05",
     pure=["big", "deframe", "prefix", "update", "errtree", "attrs"],
     specgen=(30, 300),
     scripts=lambda tier, rnd: S.pm_busy() + S.pm_gates() + S.api_races() + S.lis_fail() + S.life_cycle() + S.close_race_connect(12 if tier == "thorough" else 4) +
     sample(S.pacing(), rnd, 120 if tier == "thorough" else 25) +
     sample(S.two_sessions(), rnd, 21 if tier == "thorough" else 6) + S.stop_dial_race(2) +
     S.stop_everywhere(rnd, 600 if tier == "thorough" else 20) + S.fuzz(rnd, 1200 if tier == "thorough" else 40) + S.message_grid(rnd, 800 if tier == "thorough" else 40) +
     S.notif_values(rnd, 120 if tier == "thorough" else 20) + (S.trailing() if tier == "thorough" else sample(S.trailing(), rnd, 45)),
     mc=lambda tier: [mc_pair(["openLo", "ka", "fault"], conns=2, msgs=2)] if tier == "quick" else
     [mc_pair(["openLo", "ka", "fault", "notif"], conns=2, msgs=2), mc_pair(["openBad", "openLo", "ka", "upd", "cease"], conns=1, msgs=3, dials=2)],
     nontrivial=lambda s, r: True,
     end_oracles={"leak", "unclosed"},
     rule="well-formed prefix + mutated bytes at every FSM state and direction, with a second peer establishing afterwards and "
          "Close returning (epilogue); oracles: process exit status, bubble deadlock, leak check, TLC trace validation")
