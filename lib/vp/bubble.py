"""Run scripts on the real code in the synctest bubble and validate the traces with TLC."""
import json
import os
import time
import shutil
import subprocess
import sys
from concurrent.futures import ThreadPoolExecutor

sys.path.insert(0, os.path.join(os.path.dirname(__file__), ".."))
import tracefmt  # noqa: E402
from . import common as C  # noqa: E402


def build(work):
    return C.build_go(work, "./bubble/", "bubble.test", test=True, race=True)


def _run_shard(binary, wdir, idx, scripts):
    """Run one shard sequentially with crash containment. Returns {id: result}."""
    res = {}
    todo = list(scripts)
    attempt = 0
    while todo:
        attempt += 1
        inp = os.path.join(wdir, "in.%d.%d.ndjson" % (idx, attempt))
        outp = os.path.join(wdir, "out.%d.%d.ndjson" % (idx, attempt))
        with open(inp, "w") as f:
            for s in todo:
                f.write(json.dumps(s) + "\n")
        env = dict(os.environ, VERIF_SCRIPTS=inp, VERIF_TRACES=outp, GORACE="halt_on_error=1")
        # every schedule is a legitimate execution: shards differ in the number of Ps, which changes which narrow
        # windows Go's scheduler opens (run-to-block on one P, true parallelism on many)
        gmp = ("", "1", "2", "4")[idx % 4]
        if gmp and "GOMAXPROCS" not in os.environ:
            env["GOMAXPROCS"] = gmp
        cmd = [binary, "-test.run", "^TestRun$", "-test.count", "1", "-test.timeout", "0"]
        tmo = int(os.environ.get("VERIF_SHARD_TIMEOUT", "90"))
        # the harness flushes one line per step: "no new line for tmo seconds" means one step never reached
        # quiescence (a loaded machine slows every step down but keeps the file growing)
        logp = os.path.join(wdir, "log.%d.%d.txt" % (idx, attempt))
        with open(logp, "w") as logf:
            pr = subprocess.Popen(cmd, env=env, stdout=logf, stderr=subprocess.STDOUT, text=True)
            last_size, last_change, timed_out = -1, time.time(), False
            while True:
                try:
                    pr.wait(timeout=2)
                    break
                except subprocess.TimeoutExpired:
                    pass
                try:
                    sz = os.path.getsize(outp)
                except OSError:
                    sz = 0
                if sz != last_size:
                    last_size, last_change = sz, time.time()
                elif time.time() - last_change > tmo:
                    # ask the Go runtime for a goroutine dump, then kill
                    import signal
                    pr.send_signal(signal.SIGQUIT)
                    try:
                        pr.wait(timeout=20)
                    except subprocess.TimeoutExpired:
                        pr.kill()
                        pr.wait()
                    timed_out = True
                    break
        rc = -9 if timed_out else pr.returncode
        with open(logp, errors="replace") as lf:
            outtxt = lf.read()
        os.remove(logp)
        if timed_out:
            outtxt = "harness: no progress for %d s; goroutine dump follows\n" % tmo + outtxt
        got = tracefmt.parse_harness(outp) if os.path.exists(outp) else {}
        progressed = False
        nxt = []
        crashed_one = False
        for s in todo:
            g = got.get(s["id"])
            if g is not None and g["end"] is not None:
                res[s["id"]] = {"obs": g["obs"], "end": g["end"], "crash": None}
                progressed = True
            elif g is not None and not crashed_one:
                # began but never ended: the process died inside this script
                # a timeout means synctest.Wait never returned: some goroutine was blocked on a mutex (not a
                # durable block), which the bubble cannot wait out -- a limitation of the harness, not a verdict
                kind = "hang" if timed_out else ("race" if "WARNING: DATA RACE" in outtxt else "crash")
                dump = outtxt[-6000:]
                if kind == "hang":
                    # keep the corebgp frames of the dump: who waits for what
                    keep = [ln for ln in outtxt.splitlines() if ln.startswith("goroutine ") or "corebgp" in ln or "sync." in ln]
                    dump = "\n".join(keep)[-8000:]
                res[s["id"]] = {"obs": g["obs"], "end": None, "crash": kind, "output": dump}
                crashed_one = True
                progressed = True
            else:
                nxt.append(s)
        if not progressed:
            for s in nxt:
                res[s["id"]] = {"obs": [], "end": None, "crash": "harness", "output": outtxt[-3000:]}
            break
        if rc == 0 and not nxt:
            break
        todo = nxt
        for f in (inp, outp):
            try:
                os.remove(f)
            except OSError:
                pass
    return res


def run_scripts(work, binary, scripts, shards=None):
    shards = shards or min(C.NCPU, max(1, len(scripts) // 4))
    wdir = work.sub("run")
    parts = [scripts[i::shards] for i in range(shards)]
    res = {}
    with ThreadPoolExecutor(max_workers=shards) as ex:
        for r in ex.map(lambda a: _run_shard(binary, wdir, a[0], a[1]), enumerate(parts)):
            res.update(r)
    shutil.rmtree(wdir, ignore_errors=True)
    return res


def _tlc_batch(wdir, name, lines, consts):
    d = os.path.join(wdir, name)
    os.makedirs(d, exist_ok=True)
    C.copy_specs(d)
    with open(os.path.join(d, "trace.ndjson"), "w") as f:
        for ln in lines:
            f.write(json.dumps(ln) + "\n")
    cfg = ("SPECIFICATION TraceSpec\nCONSTANTS\n  Timed = TRUE\n  RecordOut = TRUE\n"
           "  KnownD14 = %s\n  TraceFile = \"trace.ndjson\"\n"
           "CONSTRAINT HighWater\nINVARIANT TraceInv\nPOSTCONDITION TraceAccepted\n"
           "CHECK_DEADLOCK FALSE\n") % ("TRUE" if consts.get("KnownD14") else "FALSE")
    with open(os.path.join(d, "Trace.cfg"), "w") as f:
        f.write(cfg)
    r = C.tlc(d, "CoreBGPTrace.tla", "Trace.cfg", workers=1, timeout=3600, heap="3g")
    shutil.rmtree(d, ignore_errors=True)
    return r


def validate(work, scripts, results, consts=None, batch=40):
    """TLC trace validation. Returns ({id: verdict}, stats). verdict:
       {"ok": bool, "why": str, "line": int|None, "states": int}"""
    consts = consts or {}
    wdir = work.sub("tlc")
    items = []
    verdicts = {}
    for s in scripts:
        r = results.get(s["id"])
        if r is None:
            continue
        lines = tracefmt.build(s, r["obs"])
        items.append((s["id"], lines))
    batches = [items[i:i + batch] for i in range(0, len(items), batch)]
    stats = {"generated": 0, "distinct": 0, "runs": 0}

    def do(bi_b):
        bi, b = bi_b
        out = {}
        n = 0
        pending = list(b)
        while pending:
            n += 1
            lines = [ln for _, ls in pending for ln in ls]
            r = _tlc_batch(wdir, "b%d.%d" % (bi, n), lines, consts)
            stats["generated"] += r.generated
            stats["distinct"] += r.distinct
            stats["runs"] += 1
            if r.ok:
                for sid, _ in pending:
                    out[sid] = {"ok": True, "why": "", "line": None}
                break
            if r.violated or (r.post_false and r.highwater is not None):
                hw = r.highwater
                if r.violated and hw is None:
                    # invariant violation: TLC stops; locate by the trace's l variable
                    import re
                    ls = re.findall(r"/\\ l = (\d+)", r.out)
                    hw = int(ls[-1]) if ls else 1
                # which script holds line hw (1-based; hw = first unmatched line)
                acc = 0
                hit = None
                for k, (sid, ls_) in enumerate(pending):
                    if hw <= acc + len(ls_):
                        hit = k
                        break
                    acc += len(ls_)
                if hit is None:
                    hit = len(pending) - 1
                for sid, _ in pending[:hit]:
                    out[sid] = {"ok": True, "why": "", "line": None}
                sid = pending[hit][0]
                why = ("invariant " + ",".join(r.violated)) if r.violated else "no behaviour of the specification explains the trace"
                out[sid] = {"ok": False, "why": why, "line": hw - acc,
                            "tlc": r.out[-1500:] if r.violated else ""}
                pending = pending[hit + 1:]
                continue
            raise C.Inconclusive("TLC failed on a trace batch:\n" + r.out[-3000:])
        return out

    with ThreadPoolExecutor(max_workers=min(C.NCPU, max(1, len(batches)))) as ex:
        for o in ex.map(do, enumerate(batches)):
            verdicts.update(o)
    shutil.rmtree(wdir, ignore_errors=True)
    return verdicts, stats


def spec_generated_scripts(work, n, seed, passive=False, steps=18):
    """spec -> code: TLC simulates Gen.tla (the timed system specification with an environment that moves
    at quiescence) and prints the environment's moves; they become harness scripts."""
    import re
    sys.path.insert(0, os.path.join(os.path.dirname(__file__), ".."))
    import bgp
    d = work.sub("gen%d" % (1 if passive else 0))
    C.copy_specs(d)
    with open(os.path.join(d, "Gen.cfg"), "w") as f:
        f.write("SPECIFICATION GSpec\nCONSTANTS\n  Timed = TRUE\n  RecordOut = FALSE\n  KnownD14 = TRUE\n"
                "  GenSteps = %d\n  GenPassive = %s\nCHECK_DEADLOCK FALSE\n" % (steps, "TRUE" if passive else "FALSE"))
    r = C.tlc(d, "Gen.tla", "Gen.cfg", workers=1, timeout=900, heap="3g",
              extra=["-simulate", "num=%d" % n, "-depth", "900", "-seed", str(seed)])
    shutil.rmtree(d, ignore_errors=True)
    raw = re.findall(r'<<"SCRIPT", (".*")>>', r.out)
    if not raw:
        raise C.Inconclusive("script generation by TLC produced nothing:\n" + r.out[-2000:])
    seen = set()
    out = []
    rid = {"openLo": "10.0.0.0", "openHi": "10.0.0.2", "openka": "10.0.0.2", "openBad": "10.0.0.0"}
    for k, js in enumerate(raw):
        key = js
        if key in seen:
            continue
        seen.add(key)
        moves = json.loads(json.loads(js))
        p = bgp.peer(hold=9, passive=passive)
        steps_ = [bgp.step("addPeer", peer="p1"), bgp.step("serve")]
        for m in moves:
            op = m["op"]
            if op == "connect":
                steps_.append(bgp.step("connect", conn=m["conn"], src="10.0.0.2:40000", dst="10.0.0.1:179"))
            elif op == "dialAccept":
                steps_.append(bgp.step("dialAccept", peer="p1", conn=m["conn"]))
            elif op == "dialRefuse":
                steps_.append(bgp.step("dialRefuse", peer="p1"))
            elif op == "send":
                mm = m["m"]
                if mm in ("openLo", "openHi", "openka"):
                    b = bgp.open_msg(65002, 9, bgp.ip4(rid[mm])) + (bgp.keepalive() if mm == "openka" else [])
                elif mm == "openBad":
                    b = bgp.open_msg(65002, 1, bgp.ip4(rid[mm]))
                elif mm == "ka":
                    b = bgp.keepalive()
                elif mm == "upd":
                    b = bgp.update([0, 0, 0, 0])
                elif mm == "cease":
                    b = bgp.notification(6, 0)
                elif mm == "notif":
                    b = bgp.notification(3, 1)
                else:
                    b = [0xFF] * 15 + [0, 0, 19, 4]
                steps_.append(bgp.step("send", conn=m["conn"], b=b))
            elif op in ("rclose", "rreset", "stall", "unstall"):
                steps_.append(bgp.step(op, conn=m["conn"]))
            elif op == "write":
                steps_.append(bgp.step("write", peer="p1", w=m["d"], b=[7, len(steps_) - 2]))
            elif op == "advance":
                steps_.append(bgp.step("advance", d=m["d"]))
            elif op == "deletePeer":
                steps_.append(bgp.step("deletePeer", peer="p1"))
            elif op == "close":
                steps_.append(bgp.step("close"))
        s = bgp.script("gen-%s%d-%d" % ("p" if passive else "a", seed, k), [p], steps_)
        s["tags"] = ["specgen"]
        out.append(s)
    return out
