"""Generic check for the concurrent half: MC run(s) + scripts on real code + TLC trace validation."""
import hashlib
import json
import os
import random
import shutil
import time

from . import common as C
from . import bubble as B


def script_hash(s):
    rep = [t for t in s.get("tags", ()) if t.startswith("repeat")]
    return hashlib.sha1(json.dumps([s["routerID"], s["peers"], s["steps"], rep], sort_keys=True).encode()).hexdigest()


def events_of(res):
    for o in res["obs"]:
        for e in o["ev"]:
            yield e


def run_mc(work, mcs):
    """mcs: list of (module, cfg_text, workers, timeout).  Returns summed stats; raises on spec-level failure."""
    tot = {"generated": 0, "distinct": 0, "configs": []}
    for i, mc in enumerate(mcs):
        if mc[0] == "apalache":
            tot["configs"].append(run_apalache(work, i, mc[1], mc[2]))
            continue
        module, cfgtxt, workers, timeout = mc[:4]
        reach = mc[4] if len(mc) > 4 else None      # reachability sanity: this "Never..." invariant must be violated
        d = work.sub("mc%d" % i)
        C.copy_specs(d)
        with open(os.path.join(d, "mc.cfg"), "w") as f:
            f.write(cfgtxt)
        t0 = time.time()
        r = C.tlc(d, module + ".tla", "mc.cfg", workers=workers, timeout=timeout, heap="24g")
        shutil.rmtree(d, ignore_errors=True)
        if reach:
            if r.ok or ("Invariant %s is violated" % reach) not in r.out:
                raise C.Inconclusive("vacuity guard: %s did not reach the situation %s excludes:\n%s" % (module, reach, r.out[-2000:]))
            tot["configs"].append({"module": module, "reached": reach, "wall_s": round(time.time() - t0, 1),
                                   "constants": " ".join(l.strip() for l in cfgtxt.splitlines() if "=" in l)})
            continue
        if not r.ok:
            # a counterexample on the specification alone is a specification bug: inconclusive
            raise C.Inconclusive("model checking of %s failed (specification-level):\n%s" % (module, r.out[-4000:]))
        tot["generated"] += r.generated
        tot["distinct"] += r.distinct
        tot["configs"].append({"module": module, "distinct": r.distinct, "generated": r.generated,
                               "wall_s": round(time.time() - t0, 1),
                               "constants": " ".join(l.strip() for l in cfgtxt.splitlines() if "=" in l)})
    return tot


def run_apalache(work, i, module, steps):
    """Inductive-invariant check with Apalache (unbounded in the integer variables): steps = [(init, inv, length)]."""
    d = work.sub("ap%d" % i)
    C.copy_specs(d)
    t0 = time.time()
    for init, inv, length in steps:
        r = C.run(["apalache-mc", "check", "--init=" + init, "--inv=" + inv, "--length=%d" % length,
                   "--out-dir=" + os.path.join(d, "out"), module + ".tla"], cwd=d, timeout=600)
        if "EXITCODE: OK" not in r.stdout and "EXITCODE: ERROR (12)" not in r.stdout:
            # the tool itself failed (not a counterexample): this complementary proof is skipped, and said so
            shutil.rmtree(d, ignore_errors=True)
            return {"module": module, "engine": "apalache", "skipped": "apalache-mc failed to run: " + r.stdout[-300:],
                    "wall_s": round(time.time() - t0, 1), "constants": ""}
        if "EXITCODE: OK" not in r.stdout:
            shutil.rmtree(d, ignore_errors=True)
            raise C.Inconclusive("Apalache did not discharge %s => %s (length %d) of %s (specification-level):\n%s" %
                                 (init, inv, length, module, r.stdout[-2500:]))
    shutil.rmtree(d, ignore_errors=True)
    return {"module": module, "engine": "apalache", "wall_s": round(time.time() - t0, 1),
            "constants": "inductive invariant: " + "; ".join("%s => %s, length %d" % s for s in steps)}


def check(prop, tier, spec):
    """spec: dict(scripts=fn(tier, rnd)->list, mc=fn(tier)->list, nontrivial=fn(script, res)->bool,
                  end_oracles=set(), rule=str, assumptions=[...], known=[...switch names...])"""
    t0 = time.time()
    work = C.Work(prop)
    violations = []
    known_lines = []
    try:
        rnd = random.Random(C.seed())
        scripts = spec["scripts"](tier, rnd)
        if spec.get("specgen"):
            # spec -> code: environment scripts simulated by TLC from the system specification itself
            nq, nt = spec["specgen"]
            n = nt if tier == "thorough" else nq
            scripts = scripts + B.spec_generated_scripts(work, n, C.seed()) + \
                B.spec_generated_scripts(work, max(1, n // 3), C.seed() + 1, passive=True)
        if tier == "thorough":
            # schedule-dependent scripts are run several times: each run is one sample of Go's scheduling
            racy = [x for x in scripts if set(x.get("tags", ())) & {"racy", "apirace", "pmbusy", "closerace", "gate", "pmgate", "dialrace"}]
            for k in range(1, 5):
                scripts = scripts + [dict(x, id="%s~%d" % (x["id"], k), tags=list(x.get("tags", [])) + ["repeat%d" % k]) for x in racy]
        seen = set()
        uniq = []
        for s in scripts:
            h = script_hash(s)
            if h in seen:
                continue
            seen.add(h)
            uniq.append(s)
        # results are keyed by script id: two different scripts must never share one (a family called twice with
        # different random choices can produce the same name)
        ids = {}
        for j, s in enumerate(uniq):
            n = ids.get(s["id"], 0)
            ids[s["id"]] = n + 1
            if n:
                uniq[j] = dict(s, id="%s~v%d" % (s["id"], n))
        scripts = uniq
        mcstats = run_mc(work, spec["mc"](tier)) if spec.get("mc") else {"generated": 0, "distinct": 0, "configs": []}
        binary = B.build(work)
        res = B.run_scripts(work, binary, scripts)
        verdicts, tstats = B.validate(work, scripts, res)
        findings = C.open_findings(prop)
        rejected = [s for s in scripts if s["id"] in verdicts and not verdicts[s["id"]]["ok"]]
        # known findings are matched by the specification: re-validate with the finding's switch on
        known_ok = {}
        if rejected and findings:
            consts = {f["switch"]: True for f in findings if f.get("switch")}
            if consts:
                kv, _ = B.validate(work, rejected, res, consts=consts)
                known_ok = {sid: v["ok"] for sid, v in kv.items()}
        validated = nontrivial = skipped = 0
        samples = []
        for s in scripts:
            r = res.get(s["id"])
            v = verdicts.get(s["id"])
            if r is None:
                skipped += 1
                continue
            wedge = r["crash"] == "hang" and ({"leak", "wedge"} & set(spec.get("end_oracles", ()))) and \
                "corebgp" in r.get("output", "")
            if r["crash"] == "harness" or (r["crash"] == "hang" and (v is None or v["ok"]) and not wedge):
                skipped += 1      # not driven to its end; the recorded prefix (if any) was explained
                continue
            bad = None
            if r["crash"] == "hang" and wedge and (v is None or v["ok"]):
                # The bubble never became quiescent again: a goroutine of corebgp is stuck in a way that is
                # not a durable block (typically waiting for Server.mu whose holder never returns).  The
                # committed script families never hold a gate across a wait while a mutex waiter exists, so
                # on a tree where the property holds this does not happen.
                bad = "the process wedged while running the script (no quiescence within the time limit; goroutine dump in the replay file)"
            elif r["crash"] and r["crash"] != "hang":
                bad = "process %s while running the script" % ("reported a data race" if r["crash"] == "race" else "crashed")
            elif v is not None and not v["ok"]:
                if known_ok.get(s["id"]):
                    known_lines.append((s["id"], findings))
                else:
                    bad = "trace line %s: %s" % (v["line"], v["why"])
            elif r["end"] is not None:
                e = r["end"]
                if e["fail"].startswith("bubble:") and "leak" in spec.get("end_oracles", ()):
                    bad = "goroutines left blocked at the end: " + e["fail"][:300]
                elif e["leak"] and "leak" in spec.get("end_oracles", ()):
                    bad = "corebgp goroutines alive after Close returned: %s" % e["leak"][:3]
                elif e["unclosed"] and "unclosed" in spec.get("end_oracles", ()):
                    bad = "connections never closed: %s" % e["unclosed"]
                elif e["overlap"] and "overlap" in spec.get("end_oracles", ()):
                    bad = "session callbacks overlapped in time"
                elif not e["intact"] and "intact" in spec.get("end_oracles", ()):
                    bad = "a slice handed to a plugin callback (UPDATE body, capability value) was modified afterwards"
                elif e["fail"] and not e["fail"].startswith("bubble:"):
                    skipped += 1   # the script could not be driven to its end (prefix validated)
            if bad:
                p = C.save_replay(prop, s["id"], {"property": prop, "kind": "bubble", "script": s,
                                                   "what": bad, "result": r})
                violations.append((s["id"], bad, p))
                continue
            if v is not None and v["ok"]:
                validated += 1
                if spec["nontrivial"](s, r):
                    nontrivial += 1
                    if len(samples) < 3:
                        samples.append({"script": s["id"], "steps": [
                            {k: v_ for k, v_ in st.items() if v_ not in ("", [], 0)} for st in s["steps"]][:14],
                            "events": [[e["t"], e["e"], e["c"] or e["p"], e["n"]] for e in list(events_of(r))[:12]]})
        selftest = binding_selftest(work, scripts, res, verdicts)
        pure_res = None
        if spec.get("pure"):
            from . import pure as P
            ubin = P.build(work)
            pure_res = P.run_families(work, ubin, spec["pure"], tier)
            for c in pure_res["mismatches"][:10]:
                rp = C.save_replay(prop, "%s-%s" % (c.get("f", "case"), P.case_key(c)[:10]),
                                   {"property": prop, "kind": "pure", "case": c})
                violations.append(("pure:" + c.get("f", "?"), "recorded call disagrees with the functional specification: " + P.short(c, 300), rp))
        cov = {
            "states": mcstats["distinct"] + tstats["distinct"],
            "transitions": mcstats["generated"] + tstats["generated"],
            "traces_validated_against_impl": validated,
            "evaluations": len(scripts),
            "distinct_nontrivial": nontrivial,
            "rule": spec["rule"],
            "samples": samples or [{"note": "no non-trivial sample"}],
            "model_checking": mcstats["configs"],
            "trace_validation": {"tlc_runs": tstats["runs"], "states": tstats["distinct"]},
            "scripts_not_driven_to_end": skipped,
            "known_findings_matched": len(known_lines),
            "binding_selftest": selftest,
            "exhaustive": False,
        }
        if pure_res:
            cov["states"] += pure_res["states"]
            cov["transitions"] += pure_res["states"]
            cov["traces_validated_against_impl"] += pure_res["cases"] - len(pure_res["mismatches"])
            cov["evaluations"] += pure_res["cases"]
            cov["distinct_nontrivial"] += pure_res["distinct"]
            cov["unit_level"] = {"families": spec["pure"], "recorded_calls": pure_res["cases"],
                                 "distinct_inputs": pure_res["distinct"], "mismatches": len(pure_res["mismatches"]),
                                 "samples": pure_res["samples"][:2]}
        C.write_evidence(prop, tier, cov, time.time() - t0, len(violations), spec["assumptions"])
        for f in findings:
            if f["property"] == prop:
                hit = [sid for sid, _ in known_lines]
                print("KNOWN-FINDING: property=%s %s [%s]" % (
                    prop, f["what"], ("reproduced by " + ", ".join(hit[:3])) if hit else "not triggered in this run"))
            elif known_lines:
                C.log("note: %d trace(s) show open finding %s of property %s (not a violation of %s)" % (
                    len(known_lines), f["id"], f["property"], prop))
        for sid, bad, p in violations[:20]:
            print("VIOLATION property=%s replay=%s" % (prop, p))
            C.log("  %s: %s" % (sid, bad))
        if validated == 0 and not violations:
            raise C.Inconclusive("no trace was validated")
        return 1 if violations else 0
    finally:
        work.close()


def binding_selftest(work, scripts, res, verdicts):
    """Demonstrate that the trace specification is bound to the recorded data: corrupting one logged field
    and dropping one logged event of an accepted trace must both make TLC reject it."""
    import copy
    for s in scripts:
        v = verdicts.get(s["id"])
        r = res.get(s["id"])
        if not v or not v["ok"] or not r or r["crash"] or r["end"] is None:
            continue
        ws = [(oi, ei) for oi, o in enumerate(r["obs"]) for ei, e in enumerate(o["ev"]) if e["e"] == "w" and len(e["b"]) >= 19]
        if len(ws) < 2:
            continue
        out = {}
        for name in ("corrupted_field", "dropped_event"):
            r2 = copy.deepcopy(r)
            oi, ei = ws[-1]
            if name == "corrupted_field":
                r2["obs"][oi]["ev"][ei]["b"][-1] ^= 1
            else:
                del r2["obs"][oi]["ev"][ei]
            s2 = dict(s, id=s["id"] + "#" + name)
            vv, _ = B.validate(work, [s2], {s2["id"]: r2})
            out[name] = "rejected" if not vv[s2["id"]]["ok"] else "ACCEPTED"
        if "ACCEPTED" in out.values():
            raise C.Inconclusive("binding self-test failed: a corrupted trace of %s was accepted: %s" % (s["id"], out))
        out["trace"] = s["id"]
        return out
    return {"note": "no suitable trace for the self-test in this run"}


def replay(prop, path, spec, repeats=5):
    with open(path) as f:
        rp = json.load(f)
    if rp.get("kind") == "pure":
        from . import pure as P
        return P.replay(prop, path)
    s = rp["script"]
    work = C.Work(prop + ".replay")
    try:
        binary = B.build(work)
        scripts = []
        for i in range(repeats):
            t = dict(s)
            t["id"] = "%s#r%d" % (s["id"], i)
            scripts.append(t)
        res = B.run_scripts(work, binary, scripts, shards=1)
        verdicts, _ = B.validate(work, scripts, res)
        bad = 0
        for t in scripts:
            r = res.get(t["id"])
            v = verdicts.get(t["id"])
            e = r and r["end"]
            if r is None or r["crash"] or (v and not v["ok"]) or \
                    (e and (e["leak"] or e["unclosed"] or e["overlap"] or not e["intact"] or e["fail"].startswith("bubble:"))):
                bad += 1
                print("replay %s: %s" % (t["id"], r["crash"] if r and r["crash"] else (v or {}).get("why", "end-of-script oracle")))
        if bad:
            print("VIOLATION property=%s replay=%s" % (prop, path))
            return 1
        print("replay: %d runs, all explained by the specification" % repeats)
        return 0
    finally:
        work.close()
